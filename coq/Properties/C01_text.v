(* C01, formula TEXTS -- scanner and parser composed: the front end the driver runs for "parse" commands
   ([Driver.parse_string], here [front_end]) accepts exactly the separated renderings of well-formed lexeme
   lists whose tokens (implicit intercept inserted as the scanner does) are derivable in the grammar of
   Spec/Grammar.v, returns THE tree of the grammar, ignores whitespace between tokens, refuses everything
   else with a scan error or a parse error (never a tree), and obeys the documented precedence and
   associativity for ALL identifier operands.  Only final statements; proofs live in Proofs/FormulaText.v. *)
From Verif Require Import Base Tokens Scanner Parser Grammar ParserSound ParserComplete ScannerProofs Driver
  FrontEnd FormulaText.
From Verif Require Tie.
Local Close Scope Qc_scope.
Local Close Scope Q_scope.
Local Open Scope string_scope.

(* ---- 1. accepted texts = renderings of grammatical token lists, with the grammar's tree ---- *)
Theorem C01_text_front_end_is_driver_parse : forall s, front_end s = parse_string s.
Proof. exact (fun s => eq_refl). Qed.

Theorem C01_text_accept_iff : forall s e,
  front_end s = Ok e <->
  exists ls, WellFormed ls /\ Renders s ls /\ OneTilde ls /\ DExpr (with_intercept ls) e.
Proof. exact front_end_iff. Qed.

(* the intercept convention is the scanner's: what the scanner answers on a rendering *)
Theorem C01_text_scan_rendering : forall s ls,
  WellFormed ls -> Renders s ls -> s <> "" ->
  scan s = if le_lt_dec (tilde_count ls) 1 then Ok (with_intercept ls ++ [eof_tok])%list else Err EScan.
Proof. exact scan_rendering. Qed.

Theorem C01_text_lexemes_unique : forall s ls1 ls2,
  WellFormed ls1 -> Renders s ls1 -> WellFormed ls2 -> Renders s ls2 -> ls1 = ls2.
Proof. exact lexemes_unique. Qed.

Theorem C01_text_tree_unique : forall s e ls e',
  front_end s = Ok e -> WellFormed ls -> Renders s ls -> DExpr (with_intercept ls) e' -> e' = e.
Proof. exact front_end_tree_unique. Qed.

(* ---- 2. whitespace between tokens never matters ---- *)
Theorem C01_text_whitespace : forall s s' ls,
  WellFormed ls -> ls <> [] -> Renders s ls -> Renders s' ls -> front_end s = front_end s'.
Proof. exact front_end_whitespace. Qed.

Theorem C01_text_whitespace_gen : forall s s' ls,
  WellFormed ls -> Renders s ls -> Renders s' ls ->
  (forall e, front_end s = Ok e <-> front_end s' = Ok e) /\
  ((exists x, front_end s = Err x) <-> (exists x, front_end s' = Err x)).
Proof. exact front_end_whitespace_gen. Qed.

Theorem C01_text_whitespace_exact_refuted :
  exists s s' ls, WellFormed ls /\ Renders s ls /\ Renders s' ls /\
                  front_end s = Err EScan /\ front_end s' = Err EParse.
Proof. exact front_end_whitespace_exact_refuted. Qed.

(* ---- 3. refusal: scan error / parse error, exact conditions and codes ---- *)
Theorem C01_text_refusal_iff : forall s,
  (exists x, front_end s = Err x) <->
  (forall ls, WellFormed ls -> Renders s ls -> OneTilde ls -> forall e, ~ DExpr (with_intercept ls) e).
Proof. exact front_end_refusal_iff. Qed.

Theorem C01_text_error_split : forall s x, front_end s = Err x <-> ScanError s x \/ ParseError s x.
Proof. exact front_end_err_split. Qed.

Theorem C01_text_scan_error_iff : forall s,
  (exists x, ScanError s x) <->
  s = "" \/ (forall ls, WellFormed ls -> ~ Renders s ls) \/
  (exists ls, WellFormed ls /\ Renders s ls /\ ~ OneTilde ls).
Proof. exact scan_error_iff. Qed.

Theorem C01_text_scan_error_codes : forall s x,
  ScanError s x ->
  (x = EScan \/ x = EIndex) /\ (x = EIndex -> forall ls, WellFormed ls -> ~ Renders s ls).
Proof. exact scan_error_codes. Qed.

Theorem C01_text_scan_error_iff_no_rendering_refuted :
  (exists ls, WellFormed ls /\ Renders "" ls /\ ScanError "" EScan) /\
  (exists ls, WellFormed ls /\ Renders "y~a~b" ls /\ ScanError "y~a~b" EScan).
Proof. exact scan_error_iff_no_rendering_refuted. Qed.

Theorem C01_text_parse_error_iff : forall s x,
  ParseError s x <->
  x = EParse /\ s <> "" /\
  exists ls, WellFormed ls /\ Renders s ls /\ OneTilde ls /\ forall e, ~ DExpr (with_intercept ls) e.
Proof. exact parse_error_iff. Qed.

Theorem C01_text_parse_error_is_EParse : forall ts x,
  Exists (fun t => tkind t = EOF) ts -> parse ts = Err x -> x = EParse.
Proof. exact parse_error_is_EParse. Qed.

Theorem C01_text_trichotomy : forall s,
  ((exists e, Accepted s e) /\ ~ (exists x, ScanError s x) /\ ~ (exists x, ParseError s x)) \/
  (~ (exists e, Accepted s e) /\ (exists x, ScanError s x) /\ ~ (exists x, ParseError s x)) \/
  (~ (exists e, Accepted s e) /\ ~ (exists x, ScanError s x) /\ ParseError s EParse).
Proof. exact front_end_trichotomy. Qed.

Theorem C01_text_error_codes : forall s x, front_end s = Err x -> x = EScan \/ x = EIndex \/ x = EParse.
Proof. exact front_end_error_codes. Qed.

Theorem C01_text_one_tilde_needed :
  exists ls e, WellFormed ls /\ Renders "(y~a)~b" ls /\ DExpr (with_intercept ls) e /\
               front_end "(y~a)~b" = Err EScan.
Proof. exact ex_one_tilde_needed. Qed.

(* ---- 4. precedence and associativity for all identifier strings (tight texts; the *_spaced versions hold
        for every spacing) ---- *)
Theorem C01_text_mul_over_add : forall a b c, Ident a -> Ident b -> Ident c ->
  front_end (a ++ "+" ++ b ++ "*" ++ c) = Ok (ONE [+] V a [+] (V b [*] V c)).
Proof. exact law_mul_over_add. Qed.

Theorem C01_text_mul_over_add_spaced : forall s a b c, Ident a -> Ident b -> Ident c ->
  Renders s [idt a; mk PLUS "+"; idt b; mk STAR "*"; idt c] ->
  front_end s = Ok (ONE [+] V a [+] (V b [*] V c)).
Proof. exact law_mul_over_add_spaced. Qed.

Theorem C01_text_add_left_assoc : forall a b c, Ident a -> Ident b -> Ident c ->
  front_end (a ++ "-" ++ b ++ "+" ++ c) = Ok (((ONE [+] V a) [-] V b) [+] V c).
Proof. exact law_add_left_assoc. Qed.

Theorem C01_text_sub_left_assoc : forall a b c, Ident a -> Ident b -> Ident c ->
  front_end (a ++ "-" ++ b ++ "-" ++ c) = Ok (((ONE [+] V a) [-] V b) [-] V c).
Proof. exact law_sub_left_assoc. Qed.

Theorem C01_text_mul_left_assoc : forall a b c, Ident a -> Ident b -> Ident c ->
  front_end (a ++ "/" ++ b ++ "*" ++ c) = Ok (ONE [+] ((V a [/] V b) [*] V c)).
Proof. exact law_mul_left_assoc. Qed.

Theorem C01_text_colon_over_mul : forall a b c, Ident a -> Ident b -> Ident c ->
  front_end (a ++ "*" ++ b ++ ":" ++ c) = Ok (ONE [+] (V a [*] (V b [:] V c))).
Proof. exact law_colon_over_mul. Qed.

Theorem C01_text_colon_left_assoc : forall a b c, Ident a -> Ident b -> Ident c ->
  front_end (a ++ ":" ++ b ++ ":" ++ c) = Ok (ONE [+] ((V a [:] V b) [:] V c)).
Proof. exact law_colon_left_assoc. Qed.

Theorem C01_text_pow_over_colon : forall a b c, Ident a -> Ident b -> Ident c ->
  front_end (a ++ ":" ++ b ++ "**" ++ c) = Ok (ONE [+] (V a [:] (V b [**] V c))).
Proof. exact law_pow_over_colon. Qed.

Theorem C01_text_pow_left_assoc : forall a b c, Ident a -> Ident b -> Ident c ->
  front_end (a ++ "**" ++ b ++ "**" ++ c) = Ok (ONE [+] ((V a [**] V b) [**] V c)).
Proof. exact law_pow_left_assoc. Qed.

Theorem C01_text_add_over_cmp : forall a b c, Ident a -> Ident b -> Ident c ->
  front_end (a ++ "==" ++ b ++ "+" ++ c) = Ok ((ONE [+] V a) [==] (V b [+] V c)).
Proof. exact law_add_over_cmp. Qed.

Theorem C01_text_cmp_left_assoc : forall a b c, Ident a -> Ident b -> Ident c ->
  front_end (a ++ "<" ++ b ++ "<=" ++ c) = Ok (((ONE [+] V a) [<] V b) [<=] V c).
Proof. exact law_cmp_left_assoc. Qed.

Theorem C01_text_cmp_over_pipe : forall a b c, Ident a -> Ident b -> Ident c ->
  front_end (a ++ "|" ++ b ++ "==" ++ c) = Ok ((ONE [+] V a) [|] (V b [==] V c)).
Proof. exact law_cmp_over_pipe. Qed.

Theorem C01_text_pipe_lowest : forall a b c, Ident a -> Ident b -> Ident c ->
  front_end (a ++ "+" ++ b ++ "|" ++ c) = Ok ((ONE [+] V a [+] V b) [|] V c).
Proof. exact law_pipe_lowest. Qed.

Theorem C01_text_pipe_left_assoc : forall a b c, Ident a -> Ident b -> Ident c ->
  front_end (a ++ "|" ++ b ++ "|" ++ c) = Ok (((ONE [+] V a) [|] V b) [|] V c).
Proof. exact law_pipe_left_assoc. Qed.

Theorem C01_text_tilde_splits : forall y a b, Ident y -> Ident a -> Ident b ->
  front_end (y ++ "~" ++ a ++ "+" ++ b) = Ok (V y [~] (ONE [+] V a [+] V b)).
Proof. exact law_tilde_splits. Qed.

Theorem C01_text_tilde_below_pipe : forall y z a, Ident y -> Ident z -> Ident a ->
  front_end (y ++ "|" ++ z ++ "~" ++ a) = Ok ((V y [|] V z) [~] (ONE [+] V a)).
Proof. exact law_tilde_below_pipe. Qed.

Theorem C01_text_tilde_rhs_no_pipe : forall y a b, Ident y -> Ident a -> Ident b ->
  front_end (y ++ "~" ++ a ++ "|" ++ b) = Err EParse.
Proof. exact law_tilde_rhs_no_pipe. Qed.

Theorem C01_text_tilde_rhs_group_pipe : forall y a b, Ident y -> Ident a -> Ident b ->
  front_end (y ++ "~(" ++ a ++ "|" ++ b ++ ")") = Ok (V y [~] (ONE [+] EGrouping (V a [|] V b))).
Proof. exact law_tilde_rhs_group_pipe. Qed.

Theorem C01_text_unary_tightest : forall a b, Ident a -> Ident b ->
  front_end ("-" ++ a ++ "**" ++ b) = Ok (ONE [+] (EUnary (mk MINUS "-") (V a) [**] V b)).
Proof. exact law_unary_tightest. Qed.

Theorem C01_text_group_overrides : forall a b c, Ident a -> Ident b -> Ident c ->
  front_end (a ++ "*(" ++ b ++ "+" ++ c ++ ")") = Ok (ONE [+] (V a [*] EGrouping (V b [+] V c))).
Proof. exact law_group_overrides. Qed.

Theorem C01_text_call : forall f a b, Ident f -> Ident a -> Ident b ->
  front_end (f ++ "(" ++ a ++ "," ++ b ++ ")") = Ok (ONE [+] ECall (V f) [V a; V b]).
Proof. exact law_call. Qed.

Theorem C01_text_assign_top_refused : forall a b, Ident a -> Ident b ->
  front_end (a ++ "=" ++ b) = Err EParse.
Proof. exact law_assign_top_refused. Qed.

Theorem C01_text_assign_in_call : forall f a b, Ident f -> Ident a -> Ident b ->
  front_end (f ++ "(" ++ a ++ "=" ++ b ++ ")") = Ok (ONE [+] ECall (V f) [EAssign (V a) (V b)]).
Proof. exact law_assign_in_call. Qed.

(* non-vacuity: identifiers exist, a concrete rendering with its derivation *)
Theorem C01_text_ident_examples : Ident "x" /\ Ident "np.log" /\ Ident "a_1.b" /\ Ident "Truex" /\ Ident "I".
Proof. exact ex_ident_yes. Qed.

Theorem C01_text_example :
  WellFormed ex_ls /\ Rendering ex_text ex_ls ex_ws /\ OneTilde ex_ls /\
  with_intercept ex_ls = [idt "y"; mk TILDE "~"; one_tok; plus_tok; idt "a"; mk PLUS "+"; idt "b"; mk STAR "*"; idt "c"] /\
  DExpr (with_intercept ex_ls) (V "y" [~] (ONE [+] V "a" [+] (V "b" [*] V "c"))) /\
  front_end ex_text = Ok (V "y" [~] (ONE [+] V "a" [+] (V "b" [*] V "c"))).
Proof. exact ex_rendering. Qed.

Print Assumptions C01_text_accept_iff.
Print Assumptions C01_text_scan_rendering.
Print Assumptions C01_text_lexemes_unique.
Print Assumptions C01_text_tree_unique.
Print Assumptions C01_text_whitespace.
Print Assumptions C01_text_whitespace_gen.
Print Assumptions C01_text_whitespace_exact_refuted.
Print Assumptions C01_text_refusal_iff.
Print Assumptions C01_text_error_split.
Print Assumptions C01_text_scan_error_iff.
Print Assumptions C01_text_scan_error_codes.
Print Assumptions C01_text_scan_error_iff_no_rendering_refuted.
Print Assumptions C01_text_parse_error_iff.
Print Assumptions C01_text_parse_error_is_EParse.
Print Assumptions C01_text_trichotomy.
Print Assumptions C01_text_error_codes.
Print Assumptions C01_text_one_tilde_needed.
Print Assumptions C01_text_mul_over_add.
Print Assumptions C01_text_mul_over_add_spaced.
Print Assumptions C01_text_add_left_assoc.
Print Assumptions C01_text_sub_left_assoc.
Print Assumptions C01_text_mul_left_assoc.
Print Assumptions C01_text_colon_over_mul.
Print Assumptions C01_text_colon_left_assoc.
Print Assumptions C01_text_pow_over_colon.
Print Assumptions C01_text_pow_left_assoc.
Print Assumptions C01_text_add_over_cmp.
Print Assumptions C01_text_cmp_left_assoc.
Print Assumptions C01_text_cmp_over_pipe.
Print Assumptions C01_text_pipe_lowest.
Print Assumptions C01_text_pipe_left_assoc.
Print Assumptions C01_text_tilde_splits.
Print Assumptions C01_text_tilde_below_pipe.
Print Assumptions C01_text_tilde_rhs_no_pipe.
Print Assumptions C01_text_tilde_rhs_group_pipe.
Print Assumptions C01_text_unary_tightest.
Print Assumptions C01_text_group_overrides.
Print Assumptions C01_text_call.
Print Assumptions C01_text_assign_top_refused.
Print Assumptions C01_text_assign_in_call.
Print Assumptions C01_text_example.
