(* C05 (second file, MathComp style) -- "on fully crossed data the columns belonging to one grouping factor are
   linearly independent and span all group-by-cell means of the effect expression", for the categorical shapes
   whose coding flag agrees with the common-effects analysis (C05.v: C05_rule_agrees_ theorems).
   Bridge from the list model: Proofs/GroupAsCommon.v shows that the block of (e|g) IS the common interaction
   term with the grouping factor written first and coded in full (C05.v: C05_group_block_is_common_interaction);
   here that term is read as codings over the factors (g, f) and the C03 tensor bridge gives rank and span.
   Setting as in C03_rank.v: any field, factor i has (n i).+1 levels, one observation per cell (replication:
   group_columns_replicated), C any valid contrast family (Treatment, Sum).
   (1|g)      : coding (set0, {g})                 -- g in full
   (0 + f|g)  : coding (set0, {f, g})              -- g and f in full
   (f|g)      : (1|g) and coding ({f}, {g})        -- g in full, f reduced
   cellmeans C T = the functions of the T-coordinates of a cell = all T-cell means. *)
From mathcomp Require Import all_ssreflect all_algebra.
From Verif Require Import Contrast Tensor TensorPick GroupRank.
From Verif Require Tie.

Set Implicit Arguments.
Unset Strict Implicit.
Local Open Scope ring_scope.

Theorem C05_rank_group_intercept (F : fieldType) (I : finType) (n : I -> nat)
        (C : forall f : I, 'M[F]_((n f).+1, n f)) :
  valid_contrasts C -> forall g : I,
  let cs := [:: c_int [set g]] in
  [/\ free (design C cs), (<<design C cs>> = cellmeans C [set g])%VS,
      size (design C cs) = (n g).+1 & \rank (design_mx C cs) = (n g).+1].
Proof. by move=> Cv g; exact: C05_group_intercept. Qed.

Theorem C05_rank_group_full_effect (F : fieldType) (I : finType) (n : I -> nat)
        (C : forall f : I, 'M[F]_((n f).+1, n f)) :
  valid_contrasts C -> forall g f : I, f != g ->
  let cs := [:: c_full [set g] f] in
  [/\ free (design C cs), (<<design C cs>> = cellmeans C [set f; g])%VS,
      size (design C cs) = ((n f).+1 * (n g).+1)%N
    & \rank (design_mx C cs) = ((n f).+1 * (n g).+1)%N].
Proof. by move=> Cv g f gf; exact: C05_group_full_effect. Qed.

Theorem C05_rank_group_intercept_effect (F : fieldType) (I : finType) (n : I -> nat)
        (C : forall f : I, 'M[F]_((n f).+1, n f)) :
  valid_contrasts C -> forall g f : I, f != g ->
  let cs := [:: c_int [set g]; c_red [set g] f] in
  [/\ free (design C cs), (<<design C cs>> = cellmeans C [set f; g])%VS,
      size (design C cs) = ((n f).+1 * (n g).+1)%N,
      \rank (design_mx C cs) = ((n f).+1 * (n g).+1)%N
    & size (block C (c_int [set g])) = (n g).+1 /\
      size (block C (c_red [set g] f)) = (n f * (n g).+1)%N].
Proof. by move=> Cv g f gf; exact: C05_group_intercept_effect. Qed.

(* what "all T-cell means" is: the functions of the T-coordinates, of dimension the number of T-cells *)
Theorem C05_cellmeans_are_the_cell_functions (F : fieldType) (I : finType) (n : I -> nat)
        (C : forall f : I, 'M[F]_((n f).+1, n f)) :
  valid_contrasts C -> forall T : {set I},
  \dim (cellmeans C T) = (\prod_(i in T) (n i).+1)%N.
Proof. by move=> Cv T; exact: dim_cellmeans. Qed.

(* and the listed finding KF-C05-1 as a rank statement: two categorical effects coded in full under one
   grouping factor -- what the uniform flag does for (0 + f + h | g) -- are linearly dependent *)
Theorem C05_rank_refuted_two_full_effects (F : fieldType) (I : finType) (n : I -> nat)
        (C : forall f : I, 'M[F]_((n f).+1, n f)) :
  valid_contrasts C -> forall (G : {set I}) (f h : I),
  (forall i, i \in G -> (0 < n i)%N) ->
  ~~ free (design C [:: c_full G f; (set0, h |: G)]).
Proof. by move=> Cv G f h pos; exact: group_two_full_effects_dependent. Qed.

Print Assumptions C05_rank_group_intercept.
Print Assumptions C05_rank_group_full_effect.
Print Assumptions C05_rank_group_intercept_effect.
Print Assumptions C05_cellmeans_are_the_cell_functions.
Print Assumptions C05_rank_refuted_two_full_effects.
