From Verif Require Import Base Tokens Scanner Parser Algebra Tie.
