(* C02 -- the term algebra expands operators by Wilkinson-Rogers / lme4 set semantics.
   Model: Model/Algebra.v (every operator overload of formulae/terms/terms.py, branch by branch,
   Python TypeErrors included).  Specification: Spec/Wilkinson.v ([sem], lists as sets).
   [documented] is the decidable fragment: response ~ right-hand side; the right-hand side is the
   scanner's leading 1 followed by +/- items (intercept literals 1, 0, -1; plain operands built
   from atoms with + - : * / ** n (n >= 2) and parentheses; group terms (effects | grouping));
   on the effect side an intercept literal only as the leading item.  Excluded = listed findings
   (KF-C02-5/6/7/10): each has a refuted witness below. *)
From Verif Require Import Base Tokens Algebra Wilkinson AlgebraRefines.
From Verif Require Tie.

(* every documented formula is accepted and its model equals the expansion (as sets) *)
Theorem C02_resolve_refines :
  forall e, documented e = true ->
    exists m s, describe e = Ok m /\ sem e = Some s /\ wf m /\ spec_equiv (abs m) s.
Proof. exact resolve_refines. Qed.

Theorem C02_resolve_total_on_documented :
  forall e, documented e = true -> is_ok (describe e) = true.
Proof. exact resolve_total_on_documented. Qed.

(* operator laws on well-formed operands (L, R = the term sets the operands denote) *)
Theorem C02_add_is_union : forall a b L R, Rp a L -> Rp b R -> exists v, v_add a b = Ok v /\ Rp v (L ++ R)%list.
Proof. exact add_law. Qed.
Theorem C02_sub_is_difference :
  forall a b L R, Rp a L -> Rp b R -> exists v, v_sub a b = Ok v /\ Rp v (diff fset_eqb L R).
Proof. exact sub_law. Qed.
Theorem C02_colon_is_pairwise : forall a b L R, Rp a L -> Rp b R -> exists v, v_matmul a b = Ok v /\ Rp v (cross L R).
Proof. exact colon_law. Qed.
Theorem C02_star_law :
  forall a b L R, Rp a L -> Rp b R -> exists v, v_mul a b = Ok v /\ Rp v (L ++ R ++ cross L R)%list.
Proof. exact star_law. Qed.
Theorem C02_slash_law :
  forall a b L R, Rp a L -> Rp b R ->
    exists v, v_div a b = Ok v /\ Rp v (L ++ map (app (List.concat L)) R)%list.
Proof. exact slash_law. Qed.
Theorem C02_power_law :
  forall a L z, Rp a L -> (2 <= z)%Z -> exists v, v_pow a (expo z) = Ok v /\ Rp v (power L (Z.to_nat z)).
Proof. exact power_law. Qed.
Theorem C02_or_law :
  forall a b C G, Reff a C -> Rp b G -> C <> [] ->
    exists v, v_or a b = Ok v /\ Ritem v [] (list_prod C G).
Proof. exact or_law. Qed.

(* the statement over the larger fragment (group terms also inside parenthesised sums) is false of
   the faithful model, exactly as of the real code: finding KF-C02-10 *)
Theorem C02_full_statement_is_refuted : ~ C02_full_statement.
Proof. exact C02_full_statement_refuted. Qed.

(* witnesses of the listed findings: the specification gives a meaning, the code raises *)
Example C02_refuted_effect_literal :
  let e := ast "y ~ (x + 0 | g)" in
  documented e = false /\ is_some (sem e) = true /\ describe e = Err EType.
Proof. exact effect_literal_refuted. Qed.
Example C02_refuted_bare_intercept :
  let e := ast "y ~ 1 - a" in
  documented e = false /\ is_some (sem e) = true /\ describe e = Err EType.
Proof. exact bare_intercept_refuted. Qed.
Example C02_refuted_power_one :
  let e := ast "y ~ (a + b)**1" in
  documented e = false /\ is_some (sem e) = true /\ describe e = Err EValue.
Proof. exact power_one_refuted. Qed.

Print Assumptions C02_resolve_refines.
Print Assumptions C02_star_law.
Print Assumptions C02_full_statement_is_refuted.
