From Verif Require Import Base Tie.
