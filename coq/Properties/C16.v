(* C16 -- built-in helper functions and aliases keep their documented pointwise meaning.
   Aliases are equal model functions AND bind to the same object in the TRANSFORMS registry that
   harness/translate.py regenerates from /repo/formulae/transforms.py (Generated.v, Tie.v). *)
From Verif Require Import Base Frame Eval Design Contrasts HelpersProofs.
From Verif Require Generated Tie.
Local Close Scope Qc_scope.
Local Close Scope Q_scope.

Theorem C16_alias_B : forall cx, call_function cx "B" = call_function cx "binary".
Proof. exact alias_B_binary. Qed.
Theorem C16_alias_p_prop : forall cx, call_function cx "p" = call_function cx "prop".
Proof. exact alias_p_prop. Qed.
Theorem C16_alias_prop_proportion : forall cx, call_function cx "prop" = call_function cx "proportion".
Proof. exact alias_prop_proportion. Qed.
Theorem C16_alias_standardize : forall cx, call_stateful cx "standardize" = call_stateful cx "scale".
Proof. exact alias_standardize_scale. Qed.

Theorem C16_T_is_C_Treatment :
  forall cx x r, not_box x ->
    call_function cx "T" [x; r] [] =
    (do e <- call_function cx "Treatment" [r] []; call_function cx "C" [x; e] []).
Proof. exact T_is_C_Treatment. Qed.
Theorem C16_S_is_C_Sum :
  forall cx x o, not_box x ->
    call_function cx "S" [x; o] [] =
    (do e <- call_function cx "Sum" [o] []; call_function cx "C" [x; e] []).
Proof. exact S_is_C_Sum. Qed.

(* the registry of the current source binds the aliases to the same objects *)
Theorem C16_registry_alias_classes :
  map (fun kv => fst kv) (filter (fun kv => String.eqb (snd kv) "binary") Generated.gen_transform_registry)
    = ["B"%string; "binary"%string] /\
  map (fun kv => fst kv) (filter (fun kv => String.eqb (snd kv) "proportion") Generated.gen_transform_registry)
    = ["p"%string; "prop"%string; "proportion"%string] /\
  map (fun kv => fst kv) (filter (fun kv => String.eqb (snd kv) "Scale") Generated.gen_transform_registry)
    = ["scale"%string; "standardize"%string].
Proof. exact reg_alias_classes. Qed.

(* binary(x, s): 1 exactly where x = s; refuses an s that never occurs; default = smallest value *)
Theorem C16_binary_spec :
  forall cx o xs s,
    call_function cx "binary" [PStrs o xs; PStr s] [] =
    (if existsb (str_hit s) xs then Ok (PSeries true (map (fun x => bit (str_hit s x)) xs)) else Err EValue).
Proof. exact binary_spec_str. Qed.
Theorem C16_binary_default_smallest :
  forall xs s rest, sorted_unique_str (present xs) = s :: rest ->
    In (Some s) xs /\ (forall y, In (Some y) xs -> str_leb s y = true).
Proof. exact binary_default_smallest. Qed.

Theorem C16_I_identity : forall cx v, call_function cx "I" [v] [] = Ok v.
Proof. exact I_identity. Qed.

Theorem C16_offset_constant_broadcast :
  forall t spans nrows q xs,
    tc_kind t = KOffset -> tc_response t = false -> tc_value t = POffset (Some q) xs ->
    exists dc, set_data_comp t spans nrows = Ok dc /\ dc_rows dc = repeat [Some q] nrows /\
               List.length (dc_rows dc) = nrows /\ dc_labels dc = Some [tc_name t].
Proof. exact offset_spec_constant. Qed.

Print Assumptions C16_alias_B.
Print Assumptions C16_T_is_C_Treatment.
Print Assumptions C16_binary_spec.
