(* C16 -- built-in helper functions and aliases keep their documented pointwise meaning.
   Aliases are equal model functions AND bind to the same object in the TRANSFORMS registry that
   harness/translate.py regenerates from /repo/formulae/transforms.py (Generated.v, Tie.v). *)
From Verif Require Import Base Tokens Lazy Algebra Coding Frame Eval Design Contrasts DesignStructure DesignCoding ResponseProofs HelpersProofs HelpersPrediction.
From Verif Require Generated Tie.
Local Close Scope Qc_scope.
Local Close Scope Q_scope.

Theorem C16_alias_B : forall cx, call_function cx "B" = call_function cx "binary".
Proof. exact alias_B_binary. Qed.
Theorem C16_alias_p_prop : forall cx, call_function cx "p" = call_function cx "prop".
Proof. exact alias_p_prop. Qed.
Theorem C16_alias_prop_proportion : forall cx, call_function cx "prop" = call_function cx "proportion".
Proof. exact alias_prop_proportion. Qed.
Theorem C16_alias_standardize : forall cx, call_stateful cx "standardize" = call_stateful cx "scale".
Proof. exact alias_standardize_scale. Qed.

Theorem C16_T_is_C_Treatment :
  forall cx x r, not_box x ->
    call_function cx "T" [x; r] [] =
    (do e <- call_function cx "Treatment" [r] []; call_function cx "C" [x; e] []).
Proof. exact T_is_C_Treatment. Qed.
Theorem C16_S_is_C_Sum :
  forall cx x o, not_box x ->
    call_function cx "S" [x; o] [] =
    (do e <- call_function cx "Sum" [o] []; call_function cx "C" [x; e] []).
Proof. exact S_is_C_Sum. Qed.

(* the registry of the current source binds the aliases to the same objects *)
Theorem C16_registry_alias_classes :
  map (fun kv => fst kv) (filter (fun kv => String.eqb (snd kv) "binary") Generated.gen_transform_registry)
    = ["B"%string; "binary"%string] /\
  map (fun kv => fst kv) (filter (fun kv => String.eqb (snd kv) "proportion") Generated.gen_transform_registry)
    = ["p"%string; "prop"%string; "proportion"%string] /\
  map (fun kv => fst kv) (filter (fun kv => String.eqb (snd kv) "Scale") Generated.gen_transform_registry)
    = ["scale"%string; "standardize"%string].
Proof. exact reg_alias_classes. Qed.

(* binary(x, s): 1 exactly where x = s; refuses an s that never occurs; default = smallest value *)
Theorem C16_binary_spec :
  forall cx o xs s,
    call_function cx "binary" [PStrs o xs; PStr s] [] =
    (if existsb (str_hit s) xs then Ok (PSeries true (map (fun x => bit (str_hit s x)) xs)) else Err EValue).
Proof. exact binary_spec_str. Qed.
Theorem C16_binary_default_smallest :
  forall xs s rest, sorted_unique_str (present xs) = s :: rest ->
    In (Some s) xs /\ (forall y, In (Some y) xs -> str_leb s y = true).
Proof. exact binary_default_smallest. Qed.

Theorem C16_I_identity : forall cx v, call_function cx "I" [v] [] = Ok v.
Proof. exact I_identity. Qed.

Theorem C16_offset_constant_broadcast :
  forall t spans nrows q xs,
    tc_kind t = KOffset -> tc_response t = false -> tc_value t = POffset (Some q) xs ->
    exists dc, set_data_comp t spans nrows = Ok dc /\ dc_rows dc = repeat [Some q] nrows /\
               List.length (dc_rows dc) = nrows /\ dc_labels dc = Some [tc_name t].
Proof. exact offset_spec_constant. Qed.

(* ---- prediction time ---- *)

(* offset(v) is recomputed from the NEW frame, whatever its number of rows *)
Theorem C16_offset_recomputed_at_prediction : forall cx mode train new v i0 xs0 i xs spans n,
  assoc v train = Some (ColNum i0 xs0) -> assoc v new = Some (ColNum i xs) ->
  exists t d,
    set_type_comp cx train false (CCall (LzCall "offset" [LzVar v] [])) = Ok t /\
    set_data_comp t spans n = Ok d /\
    dc_rows d = col1 xs0 /\
    new_comp cx mode new d = Ok (col1 xs, false) /\
    List.length (col1 xs) = List.length xs /\ tc_kind (dc_t d) = KOffset.
Proof. exact offset_variable_recomputed. Qed.

(* a constant offset is broadcast to the rows of the training frame and of the new frame *)
Theorem C16_offset_constant_at_prediction : forall cx mode train new z lx spans n,
  exists t d,
    set_type_comp cx train false (CCall (LzCall "offset" [LzVal (LInt z) lx] [])) = Ok t /\
    set_data_comp t spans n = Ok d /\
    dc_rows d = repeat [Some (qz z)] n /\
    new_comp cx mode new d = Ok (repeat [Some (qz z)] (frame_rows new), false).
Proof. exact offset_literal_broadcast. Qed.

(* prop(y, n) / p / proportion: two columns at training, the trials of the NEW frame at prediction *)
Theorem C16_prop_trials_of_new_frame : forall cx mode train new callee y n i j ss ts sl tl k xs,
  In callee ["p"; "prop"; "proportion"]%string ->
  assoc y train = Some (ColNum i ss) -> assoc n train = Some (ColNum j ts) ->
  all_some ss = Some sl -> all_some ts = Some tl -> prop_ok sl tl = true ->
  assoc n new = Some (ColNum k xs) ->
  exists dt,
    eval_response cx train [CCall (LzCall callee [LzVar y; LzVar n] [])] (frame_rows train) = Ok dt /\
    dt_kind dt = "proportion"%string /\
    dt_rows dt = zip_with (fun a b => [a; b]) ss ts /\
    new_term cx mode new dt = Ok (col1 xs, false).
Proof. exact prop_response_new_data. Qed.

(* binary(x, s): training column 1 exactly where x = s, refused when s never occurs in training; at
   prediction the same rule is applied to the NEW frame (so an s absent from the new frame is refused
   there: the listed finding KF-C06-2 states what that means for C06) *)
Theorem C16_binary_training : forall cx train x s lx o xs spans n,
  assoc x train = Some (ColStr o xs) ->
  let c := CCall (LzCall "binary" [LzVar x; LzVal (LStr s) lx] []) in
  if existsb (str_hit s) xs then
    exists t d, set_type_comp cx train false c = Ok t /\ set_data_comp t spans n = Ok d /\
                tc_kind t = KNumeric /\ tc_state t = [] /\ dc_t d = t /\ tc_src t = c /\
                dc_rows d = col1 (map (fun v => bit (str_hit s v)) xs) /\
                dc_labels d = Some [comp_name c]
  else set_type_comp cx train false c = Err EValue.
Proof. exact binary_design. Qed.

Theorem C16_binary_at_prediction : forall cx mode new d x s lx o xs,
  tc_src (dc_t d) = CCall (LzCall "binary" [LzVar x; LzVal (LStr s) lx] []) ->
  tc_kind (dc_t d) = KNumeric ->
  assoc x new = Some (ColStr o xs) ->
  new_comp cx mode new d =
  if existsb (str_hit s) xs then Ok (col1 (map (fun v => bit (str_hit s v)) xs), false) else Err EValue.
Proof. exact binary_new_data. Qed.

(* a proportion can only be the response: no common or group component of a built design is one *)
Theorem C16_proportion_never_predictor : forall cx data m D,
  eval_model cx data m = Ok D ->
  Forall dterm_no_prop (ds_common D) /\ Forall dgterm_no_prop (ds_group D).
Proof. exact proportion_never_predictor. Qed.

Print Assumptions C16_offset_recomputed_at_prediction.
Print Assumptions C16_offset_constant_at_prediction.
Print Assumptions C16_prop_trials_of_new_frame.
Print Assumptions C16_binary_training.
Print Assumptions C16_binary_at_prediction.
Print Assumptions C16_proportion_never_predictor.
Print Assumptions C16_alias_B.
Print Assumptions C16_T_is_C_Treatment.
Print Assumptions C16_binary_spec.
