(* C13 -- contrast codings are valid, honour their options, and are interchangeable.
   The matrices are those of Model/Coding.v (mirroring formulae/categorical.py); [entry_bridge]
   ties the executable list model to the MathComp matrices entry by entry.  All statements hold
   for every number of levels n = m.+1 and every reference / omitted level. *)
From Coq Require ZArith List.
From Verif Require Base Coding.
From mathcomp Require Import all_ssreflect all_algebra.
From Verif Require Import Contrast Tensor.
From Verif Require Tie.

Set Implicit Arguments.
Unset Strict Implicit.
Import GRing.Theory.
Local Open Scope ring_scope.

(* treatment: n-1 columns, column j is the indicator of level (lift r j), the reference row is 0 *)
Theorem C13_treat_columns (F : fieldType) (m : nat) (r i : 'I_m.+1) (j : 'I_m) :
  treat F r i j = (i == lift r j)%:R.
Proof. exact: treat_col_indicator. Qed.

Theorem C13_treat_reference_row (F : fieldType) (m : nat) (r : 'I_m.+1) : row r (treat F r) = 0.
Proof. exact: treat_ref_row_zero. Qed.

(* full rank together with the constant, for every field *)
Theorem C13_treat_full_rank (F : fieldType) (m : nat) (r : 'I_m.+1) : row_free (with_const F r).
Proof. exact: treat_full_rank. Qed.

(* sum coding: columns add up to zero, the omitted level is coded -1 *)
Theorem C13_sum_columns_zero (F : fieldType) (m : nat) (o : 'I_m.+1) (j : 'I_m) :
  \sum_i sumc F o i j = 0.
Proof. exact: sum_cols_zero. Qed.

Theorem C13_sum_omitted_row (F : fieldType) (m : nat) (o : 'I_m.+1) (j : 'I_m) : sumc F o o j = -1.
Proof. exact: sum_omit_row. Qed.

(* full rank with the constant whenever the number of levels is invertible (every numeric field) *)
Theorem C13_sum_full_rank (F : fieldType) (m : nat) (o : 'I_m.+1) :
  m.+1%:R != 0 :> F -> row_free (sum_full F o).
Proof. exact: sum_full_rank. Qed.

Theorem C13_sum_unit_num (F : numFieldType) (m : nat) (o : 'I_m.+1) : sum_full F o \in unitmx.
Proof. exact: sum_unit_num. Qed.

(* full codings span all level indicators *)
Theorem C13_treat_full_is_identity (F : fieldType) (m : nat) : treat_full F m = 1%:M.
Proof. exact: treat_fullE. Qed.

Theorem C13_sum_full_spans_everything (F : fieldType) (m : nat) (o : 'I_m.+1) :
  m.+1%:R != 0 :> F -> ((sum_full F o)^T :=: 1%:M)%MS.
Proof. exact: sum_full_colspace_full. Qed.

(* interchangeable: one factor coded with any reference, with sum coding or with all indicators
   has the same column space (column space = row space of the transpose) *)
Theorem C13_reference_irrelevant (F : fieldType) (m : nat) (r r' : 'I_m.+1) :
  ((with_const F r)^T :=: (with_const F r')^T)%MS.
Proof. exact: treat_colspace_indep. Qed.

Theorem C13_treatment_sum_same_space (F : fieldType) (m : nat) :
  m.+1%:R != 0 :> F -> forall r o : 'I_m.+1, ((with_const F r)^T :=: (sum_full F o)^T)%MS.
Proof. exact: treat_sum_colspace. Qed.

Theorem C13_treatment_full_space (F : fieldType) (m : nat) (r : 'I_m.+1) :
  ((with_const F r)^T :=: 1%:M)%MS.
Proof. exact: treat_colspace_full. Qed.

(* the executable model has exactly these entries *)
Theorem C13_entry_bridge (F : fieldType) (n r i j : nat)
        (rn : (r < n.+1)%N) (ilt : (i < n.+1)%N) (jlt : (j < n)%N) :
  [/\ nth BinNums.Z0 (nth [::] (Coding.build n.+1 (n.+1 - 1)%N (Coding.treat_entry r)) i) j
        = Coding.treat_entry r i j,
      ZtoF F (Coding.treat_entry r i j) = treat F (Ordinal rn) (Ordinal ilt) (Ordinal jlt),
      nth BinNums.Z0 (nth [::] (Coding.build n.+1 (n.+1 - 1)%N (Coding.sum_entry r)) i) j
        = Coding.sum_entry r i j
    & ZtoF F (Coding.sum_entry r i j) = sumc F (Ordinal rn) (Ordinal ilt) (Ordinal jlt)].
Proof. exact: entry_bridge. Qed.

(* ... and for WHOLE designs on complete-factorial data (LinAlg/Tensor.v): two designs for the same
   down-closed family of factor sets -- any valid contrast family per factor (treatment with any
   reference, sum with any omitted level, mixed), any codings that partition it -- have the same
   column space, both of full column rank, with the same number of columns *)
Theorem C13_coding_never_changes_the_column_space (F : fieldType) (I : finType) (n : I -> nat)
        (C C' : forall f : I, 'M[F]_((n f).+1, n f)) :
  valid_contrasts C -> valid_contrasts C' ->
  forall (cs cs' : seq (coding I)) (U : {set {set I}}),
    down_closed U -> all (@wf_coding I) cs -> all (@wf_coding I) cs' ->
    partitions cs U -> partitions cs' U ->
    [/\ (<<design C cs>> = <<design C' cs'>>)%VS, free (design C cs), free (design C' cs')
      & size (design C cs) = size (design C' cs')].
Proof. exact: design_colspace_indep. Qed.

Theorem C13_treatment_is_valid (F : fieldType) (I : finType) (n : I -> nat) (r : forall f : I, 'I_(n f).+1) :
  valid_contrasts (fun f => treat F (r f)).
Proof. exact: treat_valid. Qed.

Theorem C13_sum_is_valid (F : numFieldType) (I : finType) (n : I -> nat) (o : forall f : I, 'I_(n f).+1) :
  valid_contrasts (fun f => sumc F (o f)).
Proof. exact: sum_valid_num. Qed.

Print Assumptions C13_coding_never_changes_the_column_space.
Print Assumptions C13_treat_full_rank.
Print Assumptions C13_sum_full_rank.
Print Assumptions C13_treatment_sum_same_space.
Print Assumptions C13_entry_bridge.
