(* C07 -- designs are isolated: no state leaks across evaluations, designs or calls.
   Concrete machine (Model/History.v): a list of built designs plus the configuration; the
   specification evaluates every operation in a fresh state in which only the design the operation
   names has been built.  That the IMPLEMENTATION behaves like the concrete machine (its designs
   really are immutable: evaluate_new_data writes nothing, Build allocates fresh components, only
   config[...] = ... writes the configuration, the caller's DataFrame is untouched) is what the C07
   correspondence checks on operation histories. *)
From Verif Require Import Base Design History HistoryProofs.
From Verif Require Tie.

Theorem C07_history_refines :
  forall p ops, snd (run p init_state ops) = spec_outputs p UError [] ops.
Proof. exact history_refines. Qed.

Theorem C07_designs_append_only :
  forall p ops s, exists more, h_designs (fst (run p s ops)) = (h_designs s ++ more)%list.
Proof. exact designs_append_only. Qed.

Theorem C07_bad_config_refused :
  forall p s v, parse_mode v = None -> step p s (OSetConfig v) = (s, OutConfig false).
Proof. exact bad_config_refused. Qed.

Print Assumptions C07_history_refines.
Print Assumptions C07_designs_append_only.
