(* C01 -- Formula grammar: precedence, associativity, nothing silently ignored.
   Only final statements; proofs live in Proofs/.  The model (Model/Scanner.v, Model/Parser.v) is
   tied to /repo by Generated/Tie.v (tables) and by the C01 correspondence (procedures). *)
From Verif Require Import Base Tokens Scanner Parser Algebra Grammar ParserSound ParserComplete.
From Verif Require Tie.

(* Every token list the parser accepts is a sentence of the stratified precedence grammar and the
   tree returned is the one the grammar dictates; the derivation accounts for every token in front
   of the end marker (nothing is ignored, no left-over tokens, brackets balance). *)
Theorem C01_parse_sound : forall ts e, parse ts = Ok e -> Sentence ts e.
Proof. exact parse_sound. Qed.

(* Conversely every sentence is accepted with exactly that tree: the accepted language IS the
   grammar, so anything that is not a sentence is rejected. *)
Theorem C01_parse_iff : forall ts e, parse ts = Ok e <-> Sentence ts e.
Proof. exact parse_iff. Qed.

(* The grammar (hence the documented precedence and left associativity) determines one tree. *)
Theorem C01_grammar_unambiguous : forall body e1 e2, DExpr body e1 -> DExpr body e2 -> e1 = e2.
Proof. exact grammar_unambiguous. Qed.

(* The fuel the model passes is never exhausted: no input is rejected because the model gave up. *)
Theorem C01_fuel_enough : forall ts, parse ts <> Err OutOfFuel.
Proof. exact parse_never_out_of_fuel. Qed.

(* Redundant parentheses never change the model. *)
Theorem C01_grouping_transparent : forall e, resolve (EGrouping e) = resolve e.
Proof. reflexivity. Qed.

(* Non-vacuity: a concrete formula is a sentence with the expected left-associative tree. *)
Example C01_example :
  exists ts e, scan "y ~ a - b + c*d:e" = Ok ts /\ parse ts = Ok e /\ Sentence ts e /\
    match e with
    | EBinary _ _ (EBinary (EBinary (EBinary _ _ _) m _) p (EBinary _ s (EBinary _ c _))) =>
        tkind m = MINUS /\ tkind p = PLUS /\ tkind s = STAR /\ tkind c = COLON
    | _ => False end.
Proof.
  eexists. eexists. split; [vm_compute; reflexivity|]. split; [vm_compute; reflexivity|].
  split; [apply parse_sound; vm_compute; reflexivity | vm_compute; auto].
Qed.

(* The pinned snapshot (no end-of-input check) violated the property: tokens were dropped. *)
Example C01_refuted_without_eof_check :
  exists ts e, scan "y ~ x z" = Ok ts /\ parse_with false ts = Ok e /\ parse ts = Err EParse.
Proof. eexists. eexists. repeat split; vm_compute; reflexivity. Qed.

Print Assumptions C01_parse_sound.
Print Assumptions C01_parse_iff.
Print Assumptions C01_grammar_unambiguous.
Print Assumptions C01_fuel_enough.
