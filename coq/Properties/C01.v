From Verif Require Import Base Tokens Scanner Parser Tie.
