(* C01, the COMPLETE operator table at text level: for every ordered pair of the thirteen binary operators below
   "~" (pipe, the six comparisons, minus, plus, star, slash, colon, double star) and ALL identifier operands, the text  a o1 b o2 c  (any spacing) is
   accepted and parsed to the tree a precedence table with left associativity prescribes ([pair_tree]: root =
   rightmost operator of the lowest level; levels: pipe, comparisons, plus/minus, star/slash, colon, double star, loosest first).  The scanner's implicit
   "1 +" is part of the statement.  Only final statements; proofs live in Proofs/FormulaTextPairs.v. *)
From Verif Require Import Base Tokens Scanner Parser Grammar ParserSound ParserComplete ScannerProofs Driver
  FrontEnd FormulaText FormulaTextPairs.
From Verif Require Tie Generated.
Local Close Scope Qc_scope.
Local Close Scope Q_scope.
Local Open Scope string_scope.

Theorem C01_pairs_spaced : forall o1 o2, In o1 binops -> In o2 binops ->
  forall s a b c, Ident a -> Ident b -> Ident c ->
  Renders s [idt a; mk (fst o1) (snd o1); idt b; mk (fst o2) (snd o2); idt c] ->
  exists t, pair_tree o1 o2 a b c = Some t /\ front_end s = Ok t.
Proof. exact law_pairs_spaced. Qed.

Theorem C01_pairs_tight : forall o1 o2, In o1 binops -> In o2 binops ->
  forall a b c, Ident a -> Ident b -> Ident c ->
  exists t, pair_tree o1 o2 a b c = Some t /\ front_end (a ++ snd o1 ++ b ++ snd o2 ++ c) = Ok t.
Proof. exact law_pairs. Qed.

Theorem C01_pairs_never_refused : forall o1 o2, In o1 binops -> In o2 binops ->
  forall a b c, Ident a -> Ident b -> Ident c ->
  exists t, front_end (a ++ snd o1 ++ b ++ snd o2 ++ c) = Ok t.
Proof. exact law_pairs_accepted. Qed.

(* the prescribed tree in closed form: the level comparison alone decides the nesting *)
Theorem C01_pairs_tree_shape : forall o1 o2 a b c, In o1 binops -> In o2 binops ->
  pair_tree o1 o2 a b c =
  Some (
    let A := V a in let B := V b in let C := V c in
    let k1 := fst o1 in let k2 := fst o2 in let x1 := snd o1 in let x2 := snd o2 in
    if Nat.ltb (level k1) (level k2) then
      if Nat.leb (level k1) 2
      then (if Nat.ltb (level k1) 2
            then Bin (ONE [+] A) k1 x1 (Bin B k2 x2 C)
            else Bin (ONE [+] A) k1 x1 (Bin B k2 x2 C))
      else ONE [+] (Bin A k1 x1 (Bin B k2 x2 C))
    else
      if Nat.leb (level k1) 2
      then Bin (Bin (ONE [+] A) k1 x1 B) k2 x2 C
      else if Nat.leb (level k2) 2
           then Bin (ONE [+] (Bin A k1 x1 B)) k2 x2 C
           else ONE [+] (Bin (Bin A k1 x1 B) k2 x2 C)).
Proof. exact pair_tree_shape. Qed.

(* the same table to the right of "~": accepted iff neither operator binds looser than "+", with the same tree for the
   right-hand side; every other pair is a parse error *)
Theorem C01_pairs_after_tilde_spaced : forall o1 o2, In o1 binops -> In o2 binops ->
  forall s y a b c, Ident y -> Ident a -> Ident b -> Ident c ->
  Renders s [idt y; mk TILDE "~"; idt a; mk (fst o1) (snd o1); idt b; mk (fst o2) (snd o2); idt c] ->
  front_end s = tilde_pair o1 o2 y a b c.
Proof. exact law_tilde_pairs_spaced. Qed.

Theorem C01_pairs_after_tilde_tight : forall o1 o2, In o1 binops -> In o2 binops ->
  forall y a b c, Ident y -> Ident a -> Ident b -> Ident c ->
  front_end (y ++ "~" ++ a ++ snd o1 ++ b ++ snd o2 ++ c) = tilde_pair o1 o2 y a b c.
Proof. exact law_tilde_pairs. Qed.

Theorem C01_pairs_after_tilde_accept_iff : forall o1 o2, In o1 binops -> In o2 binops ->
  forall y a b c, Ident y -> Ident a -> Ident b -> Ident c ->
  ((exists t, front_end (y ++ "~" ++ a ++ snd o1 ++ b ++ snd o2 ++ c) = Ok t) <->
   (2 <= level (fst o1) /\ 2 <= level (fst o2))).
Proof. exact law_tilde_pairs_accept_iff. Qed.

Example C01_pairs_after_tilde_example :
  front_end "y~x1:np.log-z_2" = Ok (V "y" [~] (ONE [+] (V "x1" [:] V "np.log") [-] V "z_2")) /\
  front_end "y~x1==np.log-z_2" = Err EParse.
Proof. split; vm_compute; reflexivity. Qed.

(* the table of the specification is the chain of binary levels REGENERATED from parser.py on every run
   (Generated.gen_chain, loosest first): the operators are exactly the kinds of the chain, in its order, and the
   level of an operator is the index of its row.  A change of precedence in the source changes gen_chain and
   breaks these obligations (and Tie.tie_chain) before any case is run. *)
Theorem C01_pairs_operators_are_the_source_chain : map fst binops = List.concat Generated.gen_chain.
Proof. reflexivity. Qed.

Theorem C01_pairs_levels_are_the_source_rows :
  map (map level) Generated.gen_chain = map (fun i => List.repeat i (List.length (List.nth i Generated.gen_chain []))) (List.seq 0 (List.length Generated.gen_chain)).
Proof. reflexivity. Qed.

Theorem C01_pairs_implicit_plus_is_the_source_addition_level : level PLUS = Generated.gen_addition_index.
Proof. reflexivity. Qed.

(* non-vacuity: a concrete instance through the real scanner and parser *)
Example C01_pairs_example :
  front_end "x1>=np.log**z_2" = Ok (Bin (ONE [+] V "x1") GREATER_EQUAL ">=" (V "np.log" [**] V "z_2")).
Proof. vm_compute. reflexivity. Qed.

Print Assumptions C01_pairs_spaced.
Print Assumptions C01_pairs_tight.
Print Assumptions C01_pairs_never_refused.
Print Assumptions C01_pairs_tree_shape.
Print Assumptions C01_pairs_example.
Print Assumptions C01_pairs_after_tilde_spaced.
Print Assumptions C01_pairs_after_tilde_tight.
Print Assumptions C01_pairs_after_tilde_accept_iff.
Print Assumptions C01_pairs_after_tilde_example.
Print Assumptions C01_pairs_operators_are_the_source_chain.
Print Assumptions C01_pairs_levels_are_the_source_rows.
Print Assumptions C01_pairs_implicit_plus_is_the_source_addition_level.
