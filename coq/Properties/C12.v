(* C12 -- call terms evaluate like the Python expression they spell.
   Specification (Spec/PyExpr.v): Python operator trees [py], Python's minimal-parenthesis printer
   at token level [pytokens] (= ast.unparse; the harness re-validates the printer against CPython's
   ast.parse / ast.unparse), [embed : py -> lazy].  formulae evaluates a lazy tree by applying the
   same Python operator functions to the same leaves, so equality of TREES gives equality of values
   in every environment; the C12 correspondence and oracle check values against Python's eval.
   [no_hazard] excludes exactly the listed findings: a unary sign applied to a power (KF-C12-1), a
   power whose right operand is a power (KF-C12-2), a keyword value that is a comparison (rejected
   by formulae: allowed).  Chained comparisons are not Python binary trees at all (KF-C12-3). *)
From Verif Require Import Base Tokens Scanner Parser Grammar Lazy Algebra PyExpr PyRoundtrip.
From Verif Require Tie.

(* every hazard-free tree, of any depth, calls and keyword arguments included, is read back as
   the same tree *)
Theorem C12_py_roundtrip :
  forall e, no_hazard e = true -> wf e = true ->
    exists ast, DExpr (pytokens e) ast /\ call_resolve ast = Ok (embed e).
Proof. exact py_roundtrip. Qed.

Theorem C12_py_roundtrip_parse :
  forall e, no_hazard e = true -> wf e = true ->
    exists ast, parse (pytokens e ++ [eof_tok]) = Ok ast /\ call_resolve ast = Ok (embed e).
Proof. exact py_roundtrip_parse. Qed.

(* inside a whole formula  y ~ I(<expr>)  as the scanner delivers it (implicit "1 +" included) *)
Theorem C12_py_roundtrip_formula :
  forall y tilde e,
    tkind y = IDENTIFIER -> tkind tilde = TILDE -> no_hazard e = true -> wf e = true ->
    exists ast,
      parse (formula_tokens y tilde (pytokens e)) = Ok (formula_ast y tilde ast) /\
      call_resolve ast = Ok (embed e) /\
      describe (formula_ast y tilde ast) =
      Ok (Mod (Some [CVar (NStr (lexeme y)) None]) [CI; CT [CCall (LzCall "I" [embed e] [])]] []).
Proof. exact py_roundtrip_formula. Qed.

(* {expr} is exactly I(expr) *)
Theorem C12_brace_is_I :
  forall lb rb lp rp ts e rest,
    tkind lb = LEFT_BRACE -> tkind rb = RIGHT_BRACE -> tkind lp = LEFT_PAREN -> tkind rp = RIGHT_PAREN ->
    DExpr ts e -> at_end rest = true ->
    parse (lb :: ts ++ rb :: rest) = parse (I_token :: lp :: ts ++ rp :: rest).
Proof. exact brace_is_I_parse_eq. Qed.

(* the name is a function of the token list: textual variants of one call are one term;
   leading whitespace is skipped by the scanner *)
Theorem C12_name_whitespace_invariant :
  forall s1 s2, scan_noint s1 = scan_noint s2 -> text_name s1 = text_name s2.
Proof. exact name_ws_invariant. Qed.

Theorem C12_scan_leading_whitespace :
  forall b ws cs, forallb is_ws ws = true -> cs <> [] -> scan_chars b (ws ++ cs)%list = scan_chars b cs.
Proof. exact scan_leading_ws. Qed.

(* the listed findings, on the faithful model *)
Example C12_refuted_unary_pow_ :
  arg_tree "-x ** 2" = Ok (LzOp "**" [LzOp "-" [LzVar "x"]; LzVal (LInt 2) None]).
Proof. exact C12_refuted_unary_pow. Qed.
Example C12_refuted_pow_assoc_ :
  arg_tree "2 ** x ** 2" =
  Ok (LzOp "**" [LzOp "**" [LzVal (LInt 2) None; LzVar "x"]; LzVal (LInt 2) None]).
Proof. exact C12_refuted_pow_assoc. Qed.
Example C12_refuted_name_collision_ :
  exists t1 t2, arg_tree "I((x + z) * 2)" = Ok t1 /\ arg_tree "I(x + z * 2)" = Ok t2 /\
                lazy_eqb t1 t2 = false /\ t1 <> t2 /\
                lazy_str t1 = "I(x + z * 2)"%string /\ lazy_str t2 = "I(x + z * 2)"%string.
Proof. exact C12_refuted_name_collision. Qed.

Print Assumptions C12_py_roundtrip.
Print Assumptions C12_py_roundtrip_formula.
Print Assumptions C12_brace_is_I.
