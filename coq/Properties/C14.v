(* C14 -- stateful transforms satisfy their mathematical contracts.
   Models: Model/Transforms.v (center, scale), Model/Spline.v (bs: parameter validation, knot
   placement, FITPACK interval search + de Boor-Cox recurrence), Model/Poly.v (three-term
   recurrence with memoised alpha / norms2), all over exact rationals Qc; the square root is a
   function argument [ksqrt] (numpy's sqrt is supplied by the driver), never an axiom.
   Floating point: the implementation satisfies these exact identities up to rounding; the C14
   correspondence compares with tolerance. *)
From Coq Require Import QArith Qcanon.
From Verif Require Import Base Transforms Spline Poly TransformsProofs TransformsSpline TransformsPoly.
From Verif Require Tie.
Local Close Scope Qc_scope.
Local Close Scope Q_scope.

Definition c0 : Qc := Q2Qc (0 # 1).
Definition c1 : Qc := Q2Qc (1 # 1).

Theorem C14_center_mean0 :
  forall xs, xs <> [] -> mean (map (center_apply (center_fit xs)) xs) = c0.
Proof. exact center_mean0. Qed.

Theorem C14_center_same_map_on_later_data :
  forall xs ys,
    let '(mu, out_xs, out_ys) := center_call xs ys in
    mu = mean xs /\ out_xs = map (fun x => Qcminus x (mean xs)) xs /\
    out_ys = map (fun y => Qcminus y (mean xs)) ys.
Proof. exact center_affine. Qed.

Theorem C14_scale_mean0_var1 :
  forall (ksqrt : Qc -> Qc) xs,
    xs <> [] -> Qcmult (ksqrt (var xs)) (ksqrt (var xs)) = var xs -> var xs <> c0 ->
    let out := map (scale_apply (scale_fit ksqrt xs)) xs in
    mean out = c0 /\ var out = c1.
Proof. exact scale_mean0_var1. Qed.

Theorem C14_scale_same_map_on_later_data :
  forall (ksqrt : Qc -> Qc) xs ys,
    let '(p, out_xs, out_ys) := scale_call ksqrt xs ys in
    p = (mean xs, ksqrt (var xs)) /\
    out_xs = map (fun x => Qcdiv (Qcminus x (mean xs)) (ksqrt (var xs))) xs /\
    out_ys = map (fun y => Qcdiv (Qcminus y (mean xs)) (ksqrt (var xs))) ys.
Proof. exact scale_affine. Qed.

(* bs: number of columns = df, or #knots + degree (+1 with intercept) *)
Theorem C14_bs_ncols :
  forall x df knots degree intercept lower upper p,
    bs_init x df knots degree intercept lower upper = Ok p ->
    forall y, Z.of_nat (List.length (bs_out_row p y)) =
      match df with
      | Some d => d
      | None => match knots with
                | Some ks => (Z.of_nat (List.length ks) + degree + (if intercept then 1 else 0))%Z
                | None => 0%Z end
      end.
Proof. exact bs_ncols. Qed.

(* non-negative inside the boundary knots; with intercept the basis sums to one there *)
Theorem C14_bs_nonneg :
  forall x df knots degree intercept lower upper p lo hi y,
    bs_init x df knots degree intercept lower upper = Ok p ->
    bs_lo x lower = Ok lo -> bs_hi x upper = Ok hi ->
    Qcle lo y -> Qcle y hi -> all_nonneg (bs_out_row p y).
Proof. exact bs_rows_nonneg. Qed.

Theorem C14_bs_partition_of_unity :
  forall x df knots degree lower upper p lo hi y,
    bs_init x df knots degree true lower upper = Ok p ->
    bs_lo x lower = Ok lo -> bs_hi x upper = Ok hi ->
    Qcle lo y -> Qclt y hi -> qsum (bs_out_row p y) = c1.
Proof. exact bs_rows_sum1. Qed.

(* ... and at every y, the upper boundary and extrapolation included, when the inner knots lie
   strictly inside the boundary knots.  (When an inner knot coincides with the upper boundary the
   row at y = upper is all zeros, in the model as in scipy: see the Example in TransformsSpline.v
   and DESIGN.md, finding KF-C14-1.) *)
Theorem C14_bs_partition_of_unity_everywhere :
  forall x df knots degree lower upper p lo hi inner y,
    bs_init x df knots degree true lower upper = Ok p ->
    bs_inner x df knots degree true = Ok inner ->
    bs_lo x lower = Ok lo -> bs_hi x upper = Ok hi -> Qclt lo hi ->
    Forall (fun v => Qclt lo v /\ Qclt v hi) inner ->
    qsum (bs_out_row p y) = c1.
Proof. exact bs_rows_sum1_all. Qed.

(* invalid df / degree / knots / bounds are refused *)
Theorem C14_bs_rejects :
  forall x df knots degree intercept lower upper,
    ((degree < 0)%Z -> bs_init x df knots degree intercept lower upper = Err EValue) /\
    (df = None -> knots = None -> bs_init x df knots degree intercept lower upper = Err EValue) /\
    (forall d, df = Some d -> (n_inner_of d degree intercept < 0)%Z ->
               bs_init x df knots degree intercept lower upper = Err EValue) /\
    (forall d ks, df = Some d -> knots = Some ks ->
                  Z.of_nat (List.length ks) <> n_inner_of d degree intercept ->
                  bs_init x df knots degree intercept lower upper = Err EValue) /\
    (forall inner, bs_inner x df knots degree intercept = Ok inner -> x = [] ->
                   lower = None \/ upper = None ->
                   bs_init x df knots degree intercept lower upper = Err EValue) /\
    (forall inner lo hi, bs_inner x df knots degree intercept = Ok inner ->
                         bs_lo x lower = Ok lo -> bs_hi x upper = Ok hi -> Qclt hi lo ->
                         bs_init x df knots degree intercept lower upper = Err EValue) /\
    (forall inner lo hi v, bs_inner x df knots degree intercept = Ok inner ->
                           bs_lo x lower = Ok lo -> bs_hi x upper = Ok hi -> In v inner ->
                           Qclt v lo \/ Qclt hi v ->
                           bs_init x df knots degree intercept lower upper = Err EValue).
Proof. exact bs_rejects. Qed.

(* poly: with at least d+1 distinct abscissae the d columns are orthonormal and orthogonal to the
   constant (given a square root of the norms); raw = the powers *)
Theorem C14_poly_orthonormal :
  forall (ksqrt : Qc -> Qc) xs d,
    d < List.length (nodup Qc_eq_dec xs) ->
    let p := poly_fit xs d in
    (forall m, 1 <= m -> m <= d ->
               let v := nth m (poly_norms2 p) c0 in Qcmult (ksqrt v) (ksqrt v) = v) ->
    (forall m, m <= d -> nth m (poly_norms2 p) c0 <> c0) /\
    (let M := map (poly_point p) xs in
     forall j k, j < d -> k < d -> (j <> k -> coldot M j k = c0) /\ colsum M j = c0) /\
    (let M := poly_apply ksqrt p xs in
     forall j k, j < d -> k < d ->
                 coldot M j k = (if j =? k then c1 else c0) /\ colsum M j = c0).
Proof. exact poly_orthonormal_distinct. Qed.

Theorem C14_poly_raw_powers :
  forall (ksqrt : Qc -> Qc) degree p xs,
    degree <> 0 ->
    poly_eval ksqrt true degree p xs =
    Ok (map (fun x => map (fun k => Qcpower x k) (seq 1 degree)) xs).
Proof. exact poly_raw_powers. Qed.

Print Assumptions C14_center_mean0.
Print Assumptions C14_scale_mean0_var1.
Print Assumptions C14_bs_partition_of_unity.
Print Assumptions C14_bs_nonneg.
Print Assumptions C14_bs_rejects.
Print Assumptions C14_poly_orthonormal.
