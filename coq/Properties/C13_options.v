(* C13, "honour their options" -- reference / omitted level / levels= order, through the calls C, T, S down to the
   coded component (Model/Eval.v, Model/Coding.v, Model/Design.v).  Only final statements; proofs live in
   Proofs/CodingOptions.v.  The matrix algebra (rank, column spaces) is in C13.v. *)
From Verif Require Import Base Tokens Lazy Algebra Coding Contrasts Frame Eval Design.
From Verif Require Import DesignStructure DesignCoding DesignSum FrameStructure HelpersProofs CodingOptions.
From Coq Require Import Permutation Sorted.
From Verif Require Tie.
Local Close Scope Qc_scope.
Local Close Scope Q_scope.

(* levels of unordered string data: THE strictly increasing list with the same elements *)
Theorem C13_levels_sorted : forall l,
  StronglySorted str_lt (sort_levels false l) /\ forall x, In x (sort_levels false l) <-> In x l.
Proof. exact sort_levels_str_spec. Qed.

(* levels= (or the declared categories of an ordered column) is accepted BY THE BOX exactly when it has the same
   SET of values as the data, and is then kept in the given order (a repeated entry is refused later, when the
   component is coded: C13_duplicate_levels_refused, C13_call_with_levels) *)
Theorem C13_levels_validation : forall num o d c lv,
  (levels_valid (box_levels o lv) d -> mk_box num o d c lv = Ok (PBox num d c (box_levels o lv))) /\
  (~ levels_valid (box_levels o lv) d -> mk_box num o d c lv = Err EValue).
Proof. exact mk_box_spec. Qed.

(* an option naming a level is refused exactly when that level is consulted and is not a level *)
Theorem C13_option_accepted_iff : forall enc spans lv,
  (option_ok enc spans lv -> exists cm, code enc spans lv = Ok cm) /\
  (~ option_ok enc spans lv -> code enc spans lv = Err EValue).
Proof. exact code_accept_iff. Qed.

(* the labels are the levels without the level left out, in level order ("mean" first under full Sum) *)
Theorem C13_labels : forall enc spans lv cm,
  NoDup lv -> code enc spans lv = Ok cm -> clabels cm = contrast_labels enc spans lv.
Proof. exact code_labels. Qed.

(* with levels=lv the default reference is the FIRST of lv and the default omitted level the LAST of lv *)
Theorem C13_defaults_follow_levels : forall num o d l,
  left_out (Treatment None) (call_levels num o d (Some l)) = hd ""%string l /\
  left_out (Sum None) (call_levels num o d (Some l)) = last l ""%string.
Proof. exact levels_set_defaults. Qed.

(* end to end: f(x, a, levels=lv) for f among C, T, S; accepted iff lv is, as a set, the values present, does
   not repeat an entry, and the option names a level (when consulted); every refusal is a ValueError *)
Theorem C13_call_with_levels : forall cx data resp f xn col a lvn l va enc num o d spans nrows,
  In f ["C"; "T"; "S"]%string -> stateless a = true ->
  let E := ECtx data (d_extra cx) (d_sqrt cx) true in
  assoc xn data = Some col -> series_strings (col_value col) = Ok (num, o, d) ->
  value E a = Ok va -> second_arg_encoding f va = Ok enc ->
  lookup_name E lvn = Ok (PStrList l) ->
  let lz := LzCall f [LzVar xn; a] [("levels"%string, LzVar lvn)] in
  let run := do t <- set_type_comp cx data resp (CCall lz); set_data_comp t spans nrows in
  let e := box_comp_encoding enc in
  (levels_valid (Some l) d -> NoDup l -> option_ok e spans l ->
   exists dc cm,
     run = Ok dc /\ tc_value (dc_t dc) = PBox num d enc (Some l) /\
     dc_levels dc = l /\ dc_contrast dc = Some cm /\ code e spans l = Ok cm /\
     clabels cm = contrast_labels e spans l /\
     dc_labels dc = Some (map (fun s => (lazy_str lz ++ "[" ++ s ++ "]")%string) (contrast_labels e spans l)) /\
     (entries_premise e spans l -> dc_rows dc = map (ocoded_row e spans l) d)) /\
  (~ (levels_valid (Some l) d /\ NoDup l /\ option_ok e spans l) -> run = Err EValue).
Proof. exact CTS_levels_design. Qed.

(* ... and without levels=: declared categories of an ordered column, else the sorted values *)
Theorem C13_call_without_levels : forall cx data resp f xn col a va enc num o d spans nrows,
  In f ["C"; "T"; "S"]%string -> stateless a = true ->
  let E := ECtx data (d_extra cx) (d_sqrt cx) true in
  assoc xn data = Some col -> series_strings (col_value col) = Ok (num, o, d) ->
  value E a = Ok va -> second_arg_encoding f va = Ok enc ->
  let lz := LzCall f [LzVar xn; a] [] in
  let run := do t <- set_type_comp cx data resp (CCall lz); set_data_comp t spans nrows in
  let e := box_comp_encoding enc in
  let lvs := match o with Some cats => cats | None => sort_levels num (present d) end in
  (levels_valid o d -> NoDup lvs -> option_ok e spans lvs ->
   exists dc cm,
     run = Ok dc /\ tc_value (dc_t dc) = PBox num d enc o /\
     dc_levels dc = lvs /\ dc_contrast dc = Some cm /\ code e spans lvs = Ok cm /\
     clabels cm = contrast_labels e spans lvs /\
     dc_labels dc = Some (map (fun s => (lazy_str lz ++ "[" ++ s ++ "]")%string) (contrast_labels e spans lvs)) /\
     (entries_premise e spans lvs -> dc_rows dc = map (ocoded_row e spans lvs) d)) /\
  (~ (levels_valid o d /\ NoDup lvs /\ option_ok e spans lvs) -> run = Err EValue).
Proof. exact CTS_design. Qed.

(* ... and for a column without a declared order (strings, integers): the sorted distinct values never repeat, so
   only the option of the encoding can be refused *)
Theorem C13_call_without_levels_unordered : forall cx data resp f xn col a va enc num d spans nrows,
  In f ["C"; "T"; "S"]%string -> stateless a = true ->
  let E := ECtx data (d_extra cx) (d_sqrt cx) true in
  assoc xn data = Some col -> series_strings (col_value col) = Ok (num, None, d) ->
  value E a = Ok va -> second_arg_encoding f va = Ok enc ->
  let lz := LzCall f [LzVar xn; a] [] in
  let run := do t <- set_type_comp cx data resp (CCall lz); set_data_comp t spans nrows in
  let e := box_comp_encoding enc in
  let lvs := sort_levels num (present d) in
  (option_ok e spans lvs ->
   exists dc cm,
     run = Ok dc /\ tc_value (dc_t dc) = PBox num d enc None /\
     dc_levels dc = lvs /\ dc_contrast dc = Some cm /\ code e spans lvs = Ok cm /\
     clabels cm = contrast_labels e spans lvs /\
     dc_labels dc = Some (map (fun s => (lazy_str lz ++ "[" ++ s ++ "]")%string) (contrast_labels e spans lvs)) /\
     (entries_premise e spans lvs -> dc_rows dc = map (ocoded_row e spans lvs) d)) /\
  (~ option_ok e spans lvs -> run = Err EValue).
Proof. exact CTS_design_unordered. Qed.

(* the acceptance condition on levels= is "a permutation of the sorted distinct values" *)
Theorem C13_levels_accepted_iff_permutation : forall l d,
  levels_valid (Some l) d /\ NoDup l <-> Permutation l (sort_levels false (present d)).
Proof. exact levels_accept_perm_str. Qed.

(* A reading that is FALSE of the faithful model (and of the implementation, by correspondence): a reference that
   is not a level is accepted under full-rank Treatment coding (the identity matrix never consults it). *)
Theorem C13_refuted_reference_always_checked :
  exists r lv cm, ~ In r lv /\ code (Treatment (Some r)) true lv = Ok cm /\ clabels cm = lv.
Proof. exact treatment_bad_reference_full_refuted. Qed.

(* levels= with a repeated entry: the box accepts it (only set equality is checked there), the component built
   from it is refused with ValueError whatever the coding -- end to end through set_type_comp + set_data_comp on a
   concrete frame (C(x, levels=dup), dup = ["a"; "b"; "a"], x holding b, a) ... *)
Theorem C13_duplicate_levels_refused :
  exists cx data lz t num d enc l,
    set_type_comp cx data false (CCall lz) = Ok t /\
    tc_kind t = KCategoric /\ tc_value t = PBox num d enc (Some l) /\
    levels_valid (Some l) d /\ ~ NoDup l /\
    forall spans nrows, set_data_comp t spans nrows = Err EValue.
Proof. exact levels_duplicates_component_refused. Qed.

(* ... and in general, for every box component *)
Theorem C13_duplicate_levels_refused_all : forall t spans nrows num d enc l,
  tc_kind t = KCategoric -> tc_value t = PBox num d enc (Some l) -> ~ NoDup l ->
  set_data_comp t spans nrows = Err EValue.
Proof. exact box_duplicate_levels_refused. Qed.

Print Assumptions C13_levels_sorted.
Print Assumptions C13_levels_validation.
Print Assumptions C13_option_accepted_iff.
Print Assumptions C13_labels.
Print Assumptions C13_defaults_follow_levels.
Print Assumptions C13_call_with_levels.
Print Assumptions C13_call_without_levels.
Print Assumptions C13_call_without_levels_unordered.
Print Assumptions C13_levels_accepted_iff_permutation.
Print Assumptions C13_refuted_reference_always_checked.
Print Assumptions C13_duplicate_levels_refused.
Print Assumptions C13_duplicate_levels_refused_all.
