(* C05 (bridge) -- the MathComp rank theorems of C05_rank_num, as statements about the OUTPUT OF THE MODEL.

   The cells of the model are option Qc; LinAlg/QcField.v makes Qc a MathComp field on its own operations
   (C05_bridge_field), so the block of a built group-specific term is a MathComp matrix over the model's own
   numbers:
     M_of n G p dg    the n x (G*p) matrix of the cells of  dg_rows dg            (dg : Design.dgterm)
     E_of n p dg      the n x p matrix of the cells of the effect expression of dg
     grp_of seen i    the group number of observation i:  gidx (dg_groups dg) d i  = position of its label in
                      dg_groups dg   (d = the column of group labels)
   Hypotheses, all about the run of the model (Proofs/GroupEntry.v):
     treatment_gterm nrows tg flag dg d    set_data_gterm nrows tg flag = Ok dg, the grouping factor is one
                                           Treatment-coded categoric component with duplicate-free levels
     clean_block (dg_rows dg) n (G * p)    rows 0..n-1 are G*p wide and hold no NaN
     seen                                  the label of each of these observations is one of the groups
   They hold of y ~ x + (x|g) on a six-row frame (C05_bridge_example, where the model is run). *)
From Coq Require List String ZArith QArith Qcanon.
From Verif Require Base Coding Contrasts Frame Design Driver DesignCoding GroupEntry.
From mathcomp Require Import all_ssreflect all_algebra.
From Verif Require Import Contrast Tensor GroupRank GroupRankNum QcField GroupBridge.
From Verif Require Tie.

Set Implicit Arguments.
Unset Strict Implicit.
Local Open Scope ring_scope.

Notation Qc := Qcanon.Qc.

(* the field structure on Qc is made of the stdlib operations *)
Theorem C05_bridge_field :
  [/\ (0 : Qc) = Frame.q0 /\ (1 : Qc) = Frame.q1,
      forall x y : Qc, x + y = Qcanon.Qcplus x y,
      forall x : Qc, - x = Qcanon.Qcopp x,
      forall x y : Qc, x * y = Qcanon.Qcmult x y
    & forall x : Qc, x^-1 = Qcanon.Qcinv x].
Proof. exact: qcE. Qed.

(* list side, entrywise (NaN allowed): cell l*p+j of row i is the effect cell j in the block of the row's own
   group and the effect cell times an exact zero elsewhere (0 * NaN = NaN) *)
Theorem C05_bridge_entry nrows g spans dg c fd ref :
  Design.set_data_gterm nrows g spans = Base.Ok dg ->
  Design.tg_factor g = (c :: nil)%list -> Design.dg_factor dg = (fd :: nil)%list ->
  Design.tc_kind c = Contrasts.KCategoric -> DesignCoding.comp_encoding c = Coding.Treatment ref ->
  List.NoDup (Design.dc_levels fd) ->
  exists num o d,
    Design.categoric_data (Design.tc_value c) = Base.Ok (num, o, d) /\
    Design.dg_groups dg = Design.dc_levels fd /\
    (List.length (Design.dg_rows dg) <= List.length d)%coq_nat /\
    forall i, (i < List.length d)%coq_nat ->
      let p := List.length (List.nth i (Design.dt_rows (Design.dg_expr dg)) nil) in
      List.length (List.nth i (Design.dg_rows dg) nil) = Nat.mul (List.length (Design.dg_groups dg)) p /\
      forall l j, (l < List.length (Design.dg_groups dg))%coq_nat -> (j < p)%coq_nat ->
        GroupEntry.gcell dg i (Nat.add (Nat.mul l p) j)
        = if Nat.eqb l (GroupEntry.gidx (Design.dg_groups dg) d i) then GroupEntry.ecell dg i j
          else DesignCoding.nanzero (GroupEntry.ecell dg i j).
Proof. exact: GroupEntry.gterm_entry. Qed.

(* matrix side: a matrix with these entries is the level-major group block *)
Theorem C05_bridge_entrywise (F : fieldType) n G p (grp : 'I_n -> 'I_G) (E : 'M[F]_(n, p))
    (M : 'M[F]_(n, G * p)) :
  (forall i (k : 'I_(G * p)) (l : 'I_G) (j : 'I_p), k = (l * p + j)%N :> nat ->
     M i k = if grp i == l then E i j else 0) ->
  M = gblock_lm grp E.
Proof. exact: gblock_lm_entrywise_nat. Qed.

Section Bridge.
Variables (nrows : nat) (tg : Design.tgterm) (flag : bool) (dg : Design.dgterm).
Variable d : list (option String.string).
Variables n p : nat.
Let G := List.length (Design.dg_groups dg).
Hypothesis built : GroupEntry.treatment_gterm nrows tg flag dg d.
Hypothesis clean : GroupEntry.clean_block (Design.dg_rows dg) n (G * p).
Hypothesis seen : forall i : 'I_n, (GroupEntry.gidx (Design.dg_groups dg) d i < G)%N.

(* THE BRIDGE: the block the model builds is the group block of its effect matrix *)
Theorem C05_bridge : M_of n G p dg = gblock_lm (grp_of seen) (E_of n p dg).
Proof. exact: (gterm_bridge built clean seen). Qed.

Theorem C05_bridge_rank :
  \rank (M_of n G p dg) = (\sum_l \rank (gsub (grp_of seen) l (E_of n p dg)))%N.
Proof. exact: (gterm_rank built clean seen). Qed.

Theorem C05_bridge_full_rank :
  (\rank (M_of n G p dg) == (G * p)%N) = [forall l, \rank (gsub (grp_of seen) l (E_of n p dg)) == p].
Proof. exact: (gterm_full_rank built clean seen). Qed.

Theorem C05_bridge_span (v : 'cV[Qc]_n) :
  reflect (forall l, exists c : 'cV[Qc]_p,
             forall i, grp_of seen i = l -> v i 0 = (E_of n p dg *m c) i 0)
          (v^T <= (M_of n G p dg)^T)%MS.
Proof. exact: (gterm_spanP built clean seen). Qed.

End Bridge.

(* (0 + x|g): the G columns the model builds are independent iff x is non-zero somewhere in every group *)
Theorem C05_bridge_slope nrows tg flag dg (d : list (option String.string)) n :
  let G := List.length (Design.dg_groups dg) in
  GroupEntry.treatment_gterm nrows tg flag dg d ->
  GroupEntry.clean_block (Design.dg_rows dg) n (G * 1) ->
  (forall i : 'I_n, (GroupEntry.gidx (Design.dg_groups dg) d i < G)%N) ->
  (\rank (M_of n G 1 dg) == G) <->
  (forall l, (l < G)%coq_nat ->
     exists i q, [/\ (i < n)%coq_nat, GroupEntry.gidx (Design.dg_groups dg) d i = l,
                     GroupEntry.ecell dg i 0 = Some q & q <> 0]).
Proof. move=> G b c s; exact: (gterm_slope_indep_model b c s). Qed.

(* (x|g) = (1|g) + (x|g): the 2G columns of the two terms the model builds are independent iff x is not
   constant within any group *)
Theorem C05_bridge_intercept_slope nrows tg1 tgx flag1 flagx dg1 dgx (d : list (option String.string)) n :
  let G := List.length (Design.dg_groups dgx) in
  GroupEntry.treatment_gterm nrows tg1 flag1 dg1 d ->
  GroupEntry.treatment_gterm nrows tgx flagx dgx d ->
  Design.tg_expr tg1 = Design.TTIntercept ->
  Design.tg_factor tg1 = Design.tg_factor tgx ->
  GroupEntry.clean_block (Design.dg_rows dg1) n (G * 1) ->
  GroupEntry.clean_block (Design.dg_rows dgx) n (G * 1) ->
  (forall i : 'I_n, (GroupEntry.gidx (Design.dg_groups dgx) d i < G)%N) ->
  (\rank (row_mx (M_of n G 1 dg1) (M_of n G 1 dgx)) == (2 * G)%N) <->
  (forall l, (l < G)%coq_nat ->
     exists i i' q q',
       [/\ (i < n)%coq_nat /\ (i' < n)%coq_nat,
           GroupEntry.gidx (Design.dg_groups dgx) d i = l /\
           GroupEntry.gidx (Design.dg_groups dgx) d i' = l,
           GroupEntry.ecell dgx i 0 = Some q /\ GroupEntry.ecell dgx i' 0 = Some q' & q <> q']).
Proof. move=> G b1 bx it sm c1 cx s; exact: (gterm_int_slope_indep_model b1 bx it sm c1 cx s). Qed.

(* y ~ x + (x|g), six observations, two groups: the model is run and the four group-specific columns of
   its design have rank 4 *)
Theorem C05_bridge_example :
  let ex := GroupEntry.GroupEntryExample.ex_ds in
  Driver.parse_string GroupEntry.GroupEntryExample.ex_src (* = "y ~ x + (x|g)" *) = Base.Ok GroupEntry.GroupEntryExample.ex_e /\
  Design.design_matrices GroupEntry.GroupEntryExample.ex_cx GroupEntry.GroupEntryExample.ex_e
    GroupEntry.GroupEntryExample.exD Design.NaDrop = Base.Ok ex /\
  Design.ds_group ex = (GroupEntry.GroupEntryExample.dg1 :: GroupEntry.GroupEntryExample.dgx :: nil)%list /\
  \rank (row_mx (M_of 6 2 1 GroupEntry.GroupEntryExample.dg1) (M_of 6 2 1 GroupEntry.GroupEntryExample.dgx))
    = 4%N.
Proof. split; [exact: GroupEntry.GroupEntryExample.ex_parsed | exact: ex_bridge_rank]. Qed.

Print Assumptions C05_bridge_field.
Print Assumptions C05_bridge_entry.
Print Assumptions C05_bridge_entrywise.
Print Assumptions C05_bridge.
Print Assumptions C05_bridge_rank.
Print Assumptions C05_bridge_full_rank.
Print Assumptions C05_bridge_span.
Print Assumptions C05_bridge_slope.
Print Assumptions C05_bridge_intercept_slope.
Print Assumptions C05_bridge_example.
