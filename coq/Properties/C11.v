(* C11 -- name resolution order and evaluation environment.  The bookkeeping (which scope wins,
   which frame is captured) is proved for chains and stacks of any size; that CPython builds the
   frames this way (f_locals / f_globals of the frame k levels up) is tied by the C11
   correspondence, which runs real nested callers. *)
From Verif Require Import Base Env EnvProofs.
From Verif Require Tie.

Theorem C11_first_match_wins :
  forall chain x v,
    lookup chain x = Some v <->
    exists pre s post, chain = (pre ++ s :: post)%list /\ sassoc x s = Some v /\
                       Forall (fun s' => sassoc x s' = None) pre.
Proof. exact lookup_first_match. Qed.

Theorem C11_undefined_iff : forall chain x,
    lookup chain x = None <-> Forall (fun s => sassoc x s = None) chain.
Proof. exact lookup_none_iff. Qed.

Theorem C11_argument_order : forall e fr,
    arg_chain e fr = [ei_data e; ei_builtins e; f_locals fr; f_globals fr; ei_extra e].
Proof. exact arg_chain_order. Qed.

Theorem C11_callee_order : forall e fr,
    env_chain e fr = [ei_builtins e; f_locals fr; f_globals fr; ei_extra e].
Proof. exact callee_chain_order. Qed.

Theorem C11_undefined_raises : forall e depth x fr,
    capture (ei_stack e) depth = Ok fr ->
    Forall (fun s => sassoc x s = None) (arg_chain e fr) ->
    resolve_arg e depth x = Err EKey.
Proof. exact resolve_arg_undefined. Qed.

Theorem C11_capture_depth : forall stack k,
    (k < List.length stack -> exists fr, capture stack k = Ok fr /\ nth_error stack k = Some fr) /\
    (List.length stack <= k -> capture stack k = Err EValue).
Proof. exact capture_depth. Qed.

Theorem C11_callee_ignores_data : forall e depth path d',
    resolve_callee (EnvIn d' (ei_builtins e) (ei_stack e) (ei_extra e)) depth path
    = resolve_callee e depth path.
Proof. exact callee_ignores_data. Qed.

(* non-vacuity: data shadows builtins shadows locals shadows globals shadows extra *)
Example C11_example :
  let e := EnvIn [("a"%string, Marker "data")] [("a"%string, Marker "builtin"); ("b"%string, Marker "builtin")]
                 [PyFrame [("b"%string, Marker "local0"); ("c"%string, Marker "local0")]
                          [("c"%string, Marker "global0"); ("d"%string, Marker "global0")];
                  PyFrame [("c"%string, Marker "local1")] []]
                 [("d"%string, Marker "extra"); ("e"%string, Marker "extra")] in
  resolve_arg e 0 "a" = Ok (Marker "data") /\ resolve_arg e 0 "b" = Ok (Marker "builtin") /\
  resolve_arg e 0 "c" = Ok (Marker "local0") /\ resolve_arg e 1 "c" = Ok (Marker "local1") /\
  resolve_arg e 0 "d" = Ok (Marker "global0") /\ resolve_arg e 1 "d" = Ok (Marker "extra") /\
  resolve_arg e 0 "zz" = Err EKey /\ resolve_arg e 2 "a" = Err EValue /\
  resolve_callee e 0 ["a"%string] = Ok (Marker "builtin").
Proof. vm_compute. repeat split; reflexivity. Qed.

Print Assumptions C11_first_match_wins.
Print Assumptions C11_undefined_raises.
Print Assumptions C11_capture_depth.
