(* C04 -- "a group-specific label e|g[l] denotes the column e on the rows of group l and 0 elsewhere;
   labels and columns are in the same order and equal in number", for the WHOLE group-specific
   matrix of a design (GroupEffectsMatrix of formulae/matrices.py: the blocks of the
   GroupSpecificTerms side by side, in term order) and its flattened label list.
   Model: Model/Design.v (set_data_gterm, eval_model, design_matrices); proofs in
   Proofs/GroupWhole.v.  Wrappers only. *)
From Verif Require Import Base Tokens Lazy Algebra Coding Contrasts Frame Eval Design Driver.
From Verif Require Import DesignStructure DesignCoding DesignSum FrameStructure HelpersProofs.
From Verif Require Import Prediction PredictionGroups Containers CodingOptions ResponseProofs DesignMatrixComp.
From Verif Require Import DesignWhole GroupWhole.
From Verif Require Tie.
Local Close Scope Qc_scope.
Local Close Scope Q_scope.
Local Open Scope string_scope.
Local Open Scope list_scope.
Local Open Scope nat_scope.

(* The structured label of a column of the group-specific matrix ([glabel]) is a pair (effect
   column, group cell) of structured labels of C04_whole.v; [print_glabel] prints  effect|cell
   (the intercept effect prints "1"), [denote_glabel gl i] = (what the effect denotes on
   observation i) * (what the cell denotes on observation i); [group_columns ds]: the terms in
   order, within a term the cell slowest and the effect column fastest. *)

(** 1. The whole group-specific matrix: labels = printed structured labels, one row per observation,
       row i = their denotations on observation i; same order, same number. *)
Theorem C04_group_whole_design : forall cx e data na ds,
  frame_wf data -> scalar_extras cx -> design_matrices cx e data na = Ok ds -> supported_group_design ds ->
  group_labels ds = map print_glabel (group_columns ds) /\
  List.length (group_matrix ds) = ds_nrows ds /\
  forall i, i < ds_nrows ds ->
    nth i (group_matrix ds) [] = map (fun gl => denote_glabel gl i) (group_columns ds).
Proof. exact design_matrices_group_whole. Qed.

(* column by column *)
Theorem C04_group_whole_column : forall cx e data na ds j gl,
  frame_wf data -> scalar_extras cx -> design_matrices cx e data na = Ok ds -> supported_group_design ds ->
  nth_error (group_columns ds) j = Some gl ->
  nth_error (group_labels ds) j = Some (print_glabel gl) /\
  matrix_column j (group_matrix ds) = gdenote (ds_nrows ds) gl.
Proof. exact design_matrices_group_column. Qed.

(* labels and columns are equal in number *)
Theorem C04_group_whole_label_count : forall cx e data na ds,
  frame_wf data -> scalar_extras cx -> design_matrices cx e data na = Ok ds -> supported_group_design ds ->
  List.length (group_labels ds) = List.length (group_columns ds) /\
  (forall i, i < ds_nrows ds -> List.length (group_labels ds) = List.length (nth i (group_matrix ds) [])) /\
  (ds_nrows ds <> 0 -> width (group_matrix ds) = List.length (group_labels ds)).
Proof. exact design_matrices_group_label_count. Qed.

(* column order within a term: cell slowest, effect column fastest *)
Theorem C04_group_column_order : forall g jc je gc e,
  nth_error (gcell_columns g) jc = Some gc -> nth_error (dterm_columns (dg_expr g)) je = Some e ->
  nth_error (gterm_columns g) (jc * List.length (dterm_columns (dg_expr g)) + je) = Some (e, gc).
Proof. exact gterm_columns_nth. Qed.

(* which designs are supported: all but the three corner cases of [value_ok] *)
Theorem C04_group_supported_designs : forall cx e data na ds,
  frame_wf data -> scalar_extras cx -> design_matrices cx e data na = Ok ds ->
  Forall (fun d => value_ok (dc_t d)) (group_comps ds) -> supported_group_design ds.
Proof. exact design_matrices_group_supported. Qed.

(** 2. Row alignment: response, common matrix, group-specific matrix -- every accepted design. *)
Theorem C04_matrices_row_aligned : forall cx e data na ds,
  frame_wf data -> scalar_extras cx -> design_matrices cx e data na = Ok ds ->
  List.length (group_matrix ds) = ds_nrows ds /\
  List.length (common_matrix ds) = ds_nrows ds /\
  (forall r, ds_response ds = Some r -> List.length (dt_rows r) = ds_nrows ds) /\
  Forall (fun g => List.length (dg_rows g) = ds_nrows ds) (ds_group ds) /\
  exists m, describe e = Ok m /\ ds_nrows ds = retained data m na.
Proof. exact design_matrices_row_aligned. Qed.

(** 3. "the column e on the rows of group l and 0 elsewhere": the cell of a Treatment-coded grouping
       factor is the indicator of the cell; elsewhere the entry is e * 0 = [nanzero] e: 0, but NaN
       where e is NaN. *)
Theorem C04_group_cell_indicator : forall (gc : slabel) i,
  gc <> [] -> indicator_cell gc -> denote_slabel gc i = bcell (in_cell gc i).
Proof. exact cell_indicator. Qed.

Theorem C04_group_entry : forall cx e data na ds j gl i,
  frame_wf data -> scalar_extras cx -> design_matrices cx e data na = Ok ds ->
  supported_group_design ds -> Forall treatment_factors (ds_group ds) ->
  nth_error (group_columns ds) j = Some gl -> i < ds_nrows ds ->
  nth_error (group_labels ds) j = Some (print_glabel gl) /\
  nth j (nth i (group_matrix ds) []) None
  = if in_cell (snd gl) i then denote_slabel (fst gl) i else nanzero (denote_slabel (fst gl) i).
Proof. exact design_matrices_group_entry. Qed.

Theorem C04_group_entry_clean : forall (gl : glabel) i,
  snd gl <> [] -> indicator_cell (snd gl) -> denote_slabel (fst gl) i <> None ->
  denote_glabel gl i = if in_cell (snd gl) i then denote_slabel (fst gl) i else zcell 0.
Proof. exact denote_glabel_cell_clean. Qed.

(* under na_action="pass": NaN, not 0, outside the group *)
Theorem C04_group_zero_elsewhere_refuted :
  exists e data ds j gl i,
    parse_string "y ~ x + (x|g) + (0 + f|g:h)" = Ok e /\ frame_wf data /\
    design_matrices WholeExamples.ex_cx e data NaPass = Ok ds /\ supported_group_design ds /\
    Forall treatment_factors (ds_group ds) /\
    nth_error (group_columns ds) j = Some gl /\ nth_error (group_labels ds) j = Some "x|g[v]" /\
    i < ds_nrows ds /\ in_cell (snd gl) i = false /\
    nth j (nth i (group_matrix ds) []) None = None /\
    nth j (nth i (group_matrix ds) []) None <> zcell 0 /\
    nth j (nth i (group_matrix ds) []) None = nanzero (denote_slabel (fst gl) i).
Proof. exact GroupWholeExamples.group_zero_elsewhere_refuted. Qed.

(* all observations dropped: labels, but a matrix without rows (width 0) *)
Theorem C04_group_width_no_rows_refuted :
  exists e ds,
    parse_string "y ~ (x|g)" = Ok e /\ frame_wf GroupWholeExamples.gD0 /\
    design_matrices WholeExamples.ex_cx e GroupWholeExamples.gD0 NaDrop = Ok ds /\ supported_group_design ds /\
    ds_nrows ds = 0 /\ group_labels ds = ["1|g[u]"; "1|g[v]"; "x|g[u]"; "x|g[v]"] /\
    group_labels ds = map print_glabel (group_columns ds) /\
    group_matrix ds = [] /\ width (group_matrix ds) <> List.length (group_labels ds).
Proof. exact GroupWholeExamples.group_width_no_rows_refuted. Qed.

Print Assumptions C04_group_whole_design.
Print Assumptions C04_group_whole_column.
Print Assumptions C04_group_whole_label_count.
Print Assumptions C04_group_column_order.
Print Assumptions C04_group_supported_designs.
Print Assumptions C04_matrices_row_aligned.
Print Assumptions C04_group_cell_indicator.
Print Assumptions C04_group_entry.
Print Assumptions C04_group_entry_clean.
Print Assumptions C04_group_zero_elsewhere_refuted.
Print Assumptions C04_group_width_no_rows_refuted.
