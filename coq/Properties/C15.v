(* C15 -- response handling (Model/Design.v with tc_response = true; Model/Algebra.v mk_response). *)
From Verif Require Import Base Tokens Algebra Contrasts Frame Eval Design DesignCoding ResponseProofs.
From Verif Require Tie.
Local Close Scope Qc_scope.
Local Close Scope Q_scope.

Theorem C15_response_numeric_id :
  forall cx data name isint xs nrows,
    assoc name data = Some (ColNum isint xs) ->
    exists dt, eval_response cx data [CVar (NStr name) None] nrows = Ok dt /\
               dt_rows dt = map (fun x => [x]) xs /\ dt_labels dt = Some [name] /\
               dt_kind dt = "numeric"%string /\ dt_name dt = name.
Proof. exact response_numeric_id. Qed.

(* one indicator column per level, levels sorted (declared order: response_categorical_indicators) *)
Theorem C15_response_indicators :
  forall cx data name vs nrows,
    assoc name data = Some (ColStr None vs) -> no_missing vs = true ->
    exists dt, eval_response cx data [CVar (NStr name) None] nrows = Ok dt /\
               dt_rows dt = map (fun ox => map (oind ox) (sorted_unique_str (present vs))) vs /\
               dt_labels dt = Some (map (level_label name) (sorted_unique_str (present vs))).
Proof. exact response_categorical_sorted. Qed.

Theorem C15_response_level_binary :
  forall cx data name o vs ref nrows,
    assoc name data = Some (ColStr o vs) -> no_missing vs = true ->
    exists dt, eval_response cx data [CVar (NStr name) (Some ref)] nrows = Ok dt /\
               dt_rows dt = map (fun ox => [oind ox ref]) vs /\
               dt_labels dt = Some [level_label name ref] /\ dt_kind dt = "categoric"%string.
Proof. exact response_level_binary. Qed.

Theorem C15_response_single_term :
  forall v r, mk_response v = Ok r <-> (exists c, v = VT [c] /\ r = VR [c]).
Proof. exact response_single_term. Qed.

Theorem C15_no_response :
  forall e m, tilde_free e = true -> describe e = Ok m -> resp m = None.
Proof. exact no_response. Qed.

Theorem C15_prop_validates :
  forall cx name i j ss ts sl tl,
    In name ["p"%string; "prop"%string; "proportion"%string] ->
    all_some ss = Some sl -> all_some ts = Some tl ->
    call_function cx name [PSeries i ss; PSeries j ts] [] =
    (if prop_ok sl tl then Ok (PProp ss ts None) else Err EValue).
Proof. exact prop_spec. Qed.

Theorem C15_prop_two_columns :
  forall t nrows ss ts ct,
    tc_kind t = KProportion -> tc_response t = true -> tc_value t = PProp ss ts ct ->
    exists dc, set_data_comp t true nrows = Ok dc /\
               dc_rows dc = zip_with (fun a b => [a; b]) ss ts /\ dc_labels dc = None.
Proof. exact response_prop. Qed.

Print Assumptions C15_response_indicators.
Print Assumptions C15_response_single_term.
Print Assumptions C15_no_response.
