(* C15 -- response handling (Model/Design.v with tc_response = true; Model/Algebra.v mk_response). *)
From Verif Require Import Base Tokens Lazy Algebra Contrasts Frame Eval Design DesignCoding DesignStructure FrameStructure ResponseProofs ResponseIndep.
From Verif Require Tie.
Local Close Scope Qc_scope.
Local Close Scope Q_scope.

Theorem C15_response_numeric_id :
  forall cx data name isint xs nrows,
    assoc name data = Some (ColNum isint xs) ->
    exists dt, eval_response cx data [CVar (NStr name) None] nrows = Ok dt /\
               dt_rows dt = map (fun x => [x]) xs /\ dt_labels dt = Some [name] /\
               dt_kind dt = "numeric"%string /\ dt_name dt = name.
Proof. exact response_numeric_id. Qed.

(* one indicator column per level, levels sorted (declared order: response_categorical_indicators) *)
Theorem C15_response_indicators :
  forall cx data name vs nrows,
    assoc name data = Some (ColStr None vs) -> no_missing vs = true ->
    exists dt, eval_response cx data [CVar (NStr name) None] nrows = Ok dt /\
               dt_rows dt = map (fun ox => map (oind ox) (sorted_unique_str (present vs))) vs /\
               dt_labels dt = Some (map (level_label name) (sorted_unique_str (present vs))).
Proof. exact response_categorical_sorted. Qed.

Theorem C15_response_level_binary :
  forall cx data name o vs ref nrows,
    assoc name data = Some (ColStr o vs) -> no_missing vs = true ->
    exists dt, eval_response cx data [CVar (NStr name) (Some ref)] nrows = Ok dt /\
               dt_rows dt = map (fun ox => [oind ox ref]) vs /\
               dt_labels dt = Some [level_label name ref] /\ dt_kind dt = "categoric"%string.
Proof. exact response_level_binary. Qed.

Theorem C15_response_single_term :
  forall v r, mk_response v = Ok r <-> (exists c, v = VT [c] /\ r = VR [c]).
Proof. exact response_single_term. Qed.

Theorem C15_no_response :
  forall e m, tilde_free e = true -> describe e = Ok m -> resp m = None.
Proof. exact no_response. Qed.

Theorem C15_prop_validates :
  forall cx name i j ss ts sl tl,
    In name ["p"%string; "prop"%string; "proportion"%string] ->
    all_some ss = Some sl -> all_some ts = Some tl ->
    call_function cx name [PSeries i ss; PSeries j ts] [] =
    (if prop_ok sl tl then Ok (PProp ss ts None) else Err EValue).
Proof. exact prop_spec. Qed.

Theorem C15_prop_two_columns :
  forall t nrows ss ts ct,
    tc_kind t = KProportion -> tc_response t = true -> tc_value t = PProp ss ts ct ->
    exists dc, set_data_comp t true nrows = Ok dc /\
               dc_rows dc = zip_with (fun a b => [a; b]) ss ts /\ dc_labels dc = None.
Proof. exact response_prop. Qed.

(* ---- the predictor matrices do not depend on which response is named ---- *)

(* two formulas that differ only left of the tilde: when every response value is observed wherever the
   predictors are complete (so the same rows are retained) both designs have the same row count, the same
   common terms and the same group-specific terms -- names, kinds, labels, rows, levels, contrasts and the
   parameters memorised by stateful transforms, under every na_action *)
Theorem C15_predictors_independent_of_response : forall cx l1 l2 op r data na m1 m2 D1 D2,
  tkind op = TILDE -> frame_wf data ->
  describe (EBinary l1 op r) = Ok m1 -> describe (EBinary l2 op r) = Ok m2 ->
  ~ In ""%string (pred_reads (commons m1) (groups m1)) ->
  response_observed data m1 -> response_observed data m2 ->
  design_matrices cx (EBinary l1 op r) data na = Ok D1 ->
  design_matrices cx (EBinary l2 op r) data na = Ok D2 ->
  same_predictors D1 D2.
Proof. exact response_indep_formula. Qed.

(* ... and a formula without response builds exactly the predictors of the formula with one, and has no
   response *)
Theorem C15_without_response : forall cx l op r data na m0 m D,
  tkind op = TILDE -> frame_wf data -> tilde_free r = true ->
  describe r = Ok m0 -> describe (EBinary l op r) = Ok m ->
  ~ In ""%string (pred_reads (commons m) (groups m)) ->
  response_observed data m ->
  design_matrices cx (EBinary l op r) data na = Ok D ->
  design_matrices cx r data na = Ok (strip_design D).
Proof. exact formula_without_response_builds. Qed.

(* The premise is necessary: a response that is missing on a predictor-complete row changes, under
   "drop", the retained rows and with them every predictor, down to the mean center(x) memorises. *)
Theorem C15_refuted_without_observed_response :
  exists D1 D2,
    design_matrices ResponseIndepExamples.ex_cx ResponseIndepExamples.e_y ResponseIndepExamples.ex_data NaDrop = Ok D1 /\
    design_matrices ResponseIndepExamples.ex_cx ResponseIndepExamples.e_w ResponseIndepExamples.ex_data NaDrop = Ok D2 /\
    ds_nrows D1 = 4 /\ ds_nrows D2 = 3 /\ ~ same_predictors D1 D2.
Proof.
  destruct ResponseIndepExamples.drop_rows_needed as (D1 & D2 & H1 & H2 & H3 & H4 & H5 & _).
  exists D1, D2. auto.
Qed.

Print Assumptions C15_predictors_independent_of_response.
Print Assumptions C15_without_response.
Print Assumptions C15_refuted_without_observed_response.
Print Assumptions C15_response_indicators.
Print Assumptions C15_response_single_term.
Print Assumptions C15_no_response.
