(* C09 -- missing-value policy: drop / error / pass (Model/Design.v prepare_data, design_matrices).
   NaN propagation through the numeric kernels ("pass") is tied by the correspondence. *)
From Verif Require Import Base Tokens Lazy Algebra Coding Contrasts Frame Eval Design DesignStructure DesignCoding FrameStructure Unseen Prediction PredictionGroups Containers ResponseIndep PassPolicy.
From Verif Require Generated Tie.
Local Close Scope Qc_scope.
Local Close Scope Q_scope.

(* drop = keep exactly the rows that are complete in the USED columns *)
Theorem C09_drop_is_filter :
  forall data m, frame_wf data -> frame_rows data <> 0%nat ->
    prepare_data data m NaDrop = Ok (frame_select (complete_mask data m) (used_cols data m)).
Proof. exact drop_is_filter. Qed.

(* ... hence the whole result equals the run (under any policy) on the data without those rows *)
Theorem C09_design_drop_is_filter :
  forall cx e data m na,
    describe e = Ok m -> frame_wf data -> frame_rows data <> 0%nat ->
    count_true (complete_mask data m) <> 0%nat ->
    design_matrices cx e (frame_select (complete_mask data m) data) na = design_matrices cx e data NaDrop.
Proof. exact design_drop_is_filter. Qed.

Theorem C09_error_iff :
  forall data m, frame_wf data -> frame_rows data <> 0%nat ->
    (prepare_data data m NaError = Err EValue <->
     exists kv, In kv (used_cols data m) /\ has_missing (snd kv) = true) /\
    (prepare_data data m NaError <> Err EValue -> prepare_data data m NaError = Ok (used_cols data m)).
Proof. exact error_iff. Qed.

Theorem C09_pass_keeps_rows :
  forall data m, frame_rows data <> 0%nat -> prepare_data data m NaPass = Ok (used_cols data m).
Proof. exact pass_keeps_rows. Qed.

(* missing values in unused columns are ignored *)
Theorem C09_unused_columns_irrelevant :
  forall d1 d2 m na, used_cols d1 m = used_cols d2 m -> frame_rows d1 = frame_rows d2 ->
    prepare_data d1 m na = prepare_data d2 m na.
Proof. exact unused_columns_irrelevant. Qed.

(* ---- "pass" ---- *)

(* IEEE: NaN times zero is NaN, so x:f[b] is NaN on a row where x is missing even though the
   indicator is 0 there *)
Theorem C09_nan_times_zero : cmul None (zcell 0) = None /\ cmul (zcell 0) None = None.
Proof. exact nan_times_zero. Qed.

(* For models made of plain variables, arithmetic calls (I(...), operators) and C/T/S codings of complete
   categorical columns, on frames whose missing values sit in numeric columns and in which every level
   and every group occurs on some complete row:
   - "pass" keeps every row, in order;
   - the design under "drop" is the design under "pass" with the incomplete rows removed from every
     matrix (same names, kinds, labels, levels, contrasts, group labels: complete rows are encoded exactly
     as under drop);
   - on every row, a common or group-specific term is NaN in ALL its columns if a numeric variable it
     reads is missing there, and in NO column otherwise. *)
Theorem C09_pass_policy : forall cx e D m ds,
  describe e = Ok m -> frame_wf D -> frame_rows D <> 0%nat -> used_cols D m <> [] ->
  frame_unordered D -> scalar_extras cx ->
  count_true (complete_mask D m) <> 0%nat ->
  simple_modelb D m = true -> frame_coveredb (complete_mask D m) D m = true ->
  design_matrices cx e D NaPass = Ok ds ->
  ds_nrows ds = frame_rows D /\
  design_matrices cx e D NaDrop = Ok (design_select (complete_mask D m) ds) /\
  forall i, (i < frame_rows D)%nat -> common_rows_spec D i ds /\ group_rows_spec D i ds.
Proof. exact pass_policy_simple. Qed.

(* The coverage premise is necessary (and the property's clause "complete rows are encoded exactly as
   under drop" is to be read with it): when a level occurs only on incomplete rows, "drop" loses the level
   and its column, "pass" keeps it. *)
Theorem C09_refuted_without_level_coverage :
  exists cx e D m dsP dsD,
    describe e = Ok m /\ frame_wf D /\ frame_unordered D /\ scalar_extras cx /\
    used_cols D m <> [] /\ count_true (complete_mask D m) <> 0%nat /\ simple_modelb D m = true /\
    frame_coveredb (complete_mask D m) D m = false /\
    design_matrices cx e D NaPass = Ok dsP /\ design_matrices cx e D NaDrop = Ok dsD /\
    map dt_labels (ds_common dsP) = [Some ["Intercept"%string]; Some ["x"%string]; Some ["f[b]"%string; "f[c]"%string]] /\
    map dt_labels (ds_common dsD) = [Some ["Intercept"%string]; Some ["x"%string]; Some ["f[c]"%string]] /\
    dsD <> design_select (complete_mask D m) dsP.
Proof. exact PassPolicyExamples.levels_not_kept_refuted. Qed.

(* any other na_action is refused: the accepted values are exactly those of the source *)
Example C09_accepted_policies : Generated.gen_na_actions = ["drop"%string; "error"%string; "pass"%string].
Proof. reflexivity. Qed.

Print Assumptions C09_drop_is_filter.
Print Assumptions C09_design_drop_is_filter.
Print Assumptions C09_error_iff.
Print Assumptions C09_nan_times_zero.
Print Assumptions C09_pass_policy.
Print Assumptions C09_refuted_without_level_coverage.
