(* C09 -- missing-value policy: drop / error / pass (Model/Design.v prepare_data, design_matrices).
   NaN propagation through the numeric kernels ("pass") is tied by the correspondence. *)
From Verif Require Import Base Tokens Algebra Frame Design DesignStructure FrameStructure.
From Verif Require Generated Tie.
Local Close Scope Qc_scope.
Local Close Scope Q_scope.

(* drop = keep exactly the rows that are complete in the USED columns *)
Theorem C09_drop_is_filter :
  forall data m, frame_wf data -> frame_rows data <> 0%nat ->
    prepare_data data m NaDrop = Ok (frame_select (complete_mask data m) (used_cols data m)).
Proof. exact drop_is_filter. Qed.

(* ... hence the whole result equals the run (under any policy) on the data without those rows *)
Theorem C09_design_drop_is_filter :
  forall cx e data m na,
    describe e = Ok m -> frame_wf data -> frame_rows data <> 0%nat ->
    count_true (complete_mask data m) <> 0%nat ->
    design_matrices cx e (frame_select (complete_mask data m) data) na = design_matrices cx e data NaDrop.
Proof. exact design_drop_is_filter. Qed.

Theorem C09_error_iff :
  forall data m, frame_wf data -> frame_rows data <> 0%nat ->
    (prepare_data data m NaError = Err EValue <->
     exists kv, In kv (used_cols data m) /\ has_missing (snd kv) = true) /\
    (prepare_data data m NaError <> Err EValue -> prepare_data data m NaError = Ok (used_cols data m)).
Proof. exact error_iff. Qed.

Theorem C09_pass_keeps_rows :
  forall data m, frame_rows data <> 0%nat -> prepare_data data m NaPass = Ok (used_cols data m).
Proof. exact pass_keeps_rows. Qed.

(* missing values in unused columns are ignored *)
Theorem C09_unused_columns_irrelevant :
  forall d1 d2 m na, used_cols d1 m = used_cols d2 m -> frame_rows d1 = frame_rows d2 ->
    prepare_data d1 m na = prepare_data d2 m na.
Proof. exact unused_columns_irrelevant. Qed.

(* any other na_action is refused: the accepted values are exactly those of the source *)
Example C09_accepted_policies : Generated.gen_na_actions = ["drop"%string; "error"%string; "pass"%string].
Proof. reflexivity. Qed.

Print Assumptions C09_drop_is_filter.
Print Assumptions C09_design_drop_is_filter.
Print Assumptions C09_error_iff.
