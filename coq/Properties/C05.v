(* C05 -- group-specific blocks: group indicators x effect columns.
   Block structure is proved for every number of groups and effect columns; the choice of the
   effect coding is the C03 analysis applied by Model.eval with one uniform flag (finding
   KF-C05-1 lists the effect expressions for which that flag is not what C03 would choose). *)
From Verif Require Import Base Coding Contrasts Frame Eval Design DesignStructure DesignCoding.
From Verif Require Tie.
Local Close Scope Qc_scope.
Local Close Scope Q_scope.

(* one-hot group row (x) effect row = the effect row in the slots of that group, zero elsewhere *)
Theorem C05_onehot_kron :
  forall n k (e : list cell),
    k < n -> Forall (fun c => c <> None) e ->
    row_kron (onehot n k) e =
    (repeat (zcell 0) (k * List.length e) ++ e ++ repeat (zcell 0) ((n - k - 1) * List.length e))%list.
Proof. exact onehot_kron. Qed.

(* a group-specific term with one grouping factor: groups are the sorted levels; every row is
   non-zero only in the slots of its own group and carries the effect values there *)
Theorem C05_group_block :
  forall nrows g spans dg c fd ref,
    set_data_gterm nrows g spans = Ok dg ->
    tg_factor g = [c] -> dg_factor dg = [fd] ->
    tc_kind c = KCategoric -> comp_encoding c = Treatment ref -> NoDup (dc_levels fd) ->
    exists num o d,
      categoric_data (tc_value c) = Ok (num, o, d) /\
      dg_groups dg = dc_levels fd /\
      forall i x, nth_error d i = Some (Some x) ->
        let erow := nth i (dt_rows (dg_expr dg)) [] in
        let n := List.length (dc_levels fd) in
        (forall k, index_of x (dc_levels fd) = Some k ->
                   nth i (dg_rows dg) [] =
                   List.concat (map (fun j => if (j =? k)%nat then erow else map nanzero erow) (seq 0 n))) /\
        (forall k, index_of x (dc_levels fd) = Some k -> Forall (fun c0 => c0 <> None) erow ->
                   nth i (dg_rows dg) [] =
                   (repeat (zcell 0) (k * List.length erow) ++ erow ++
                    repeat (zcell 0) ((n - k - 1) * List.length erow))%list) /\
        (index_of x (dc_levels fd) = None ->
         nth i (dg_rows dg) [] = List.concat (map (fun _ => map nanzero erow) (seq 0 n))).
Proof. exact set_data_gterm_block. Qed.

(* any grouping expression (g1:g2:...): labels "effect|group" and entries stay aligned, the group
   varies slowest, the effect fastest *)
Theorem C05_group_labels :
  forall nrows g spans dg,
    set_data_gterm nrows g spans = Ok dg ->
    exists levels,
      (if String.eqb (dt_kind (dg_expr dg)) "intercept" then Ok ["1"%string]
       else match dt_labels (dg_expr dg) with Some l => Ok l | None => Err EType end) = Ok levels /\
      forall i,
        let flabs := label_product (map dc_labs (dg_factor dg)) ":" in
        let frow := nth i (factor_rows (dg_factor dg)) [] in
        let erow := nth i (dt_rows (dg_expr dg)) [] in
        List.length flabs = List.length frow -> List.length levels = List.length erow ->
        combine (dg_labels dg) (nth i (dg_rows dg) []) = gprod (combine flabs frow) (combine levels erow) /\
        List.length (dg_labels dg) = List.length (nth i (dg_rows dg) []).
Proof. exact set_data_gterm_lrow. Qed.

Print Assumptions C05_onehot_kron.
Print Assumptions C05_group_block.
Print Assumptions C05_group_labels.
