(* C05 -- group-specific blocks: group indicators x effect columns.
   Block structure is proved for every number of groups and effect columns; the choice of the
   effect coding is the C03 analysis applied by Model.eval with one uniform flag (finding
   KF-C05-1 lists the effect expressions for which that flag is not what C03 would choose). *)
From Verif Require Import Base Coding Contrasts Frame Eval Algebra Design DesignStructure DesignCoding GroupCoding GroupAsCommon.
From Verif Require Tie.
Local Close Scope Qc_scope.
Local Close Scope Q_scope.

(* one-hot group row (x) effect row = the effect row in the slots of that group, zero elsewhere *)
Theorem C05_onehot_kron :
  forall n k (e : list cell),
    k < n -> Forall (fun c => c <> None) e ->
    row_kron (onehot n k) e =
    (repeat (zcell 0) (k * List.length e) ++ e ++ repeat (zcell 0) ((n - k - 1) * List.length e))%list.
Proof. exact onehot_kron. Qed.

(* a group-specific term with one grouping factor: groups are the sorted levels; every row is
   non-zero only in the slots of its own group and carries the effect values there *)
Theorem C05_group_block :
  forall nrows g spans dg c fd ref,
    set_data_gterm nrows g spans = Ok dg ->
    tg_factor g = [c] -> dg_factor dg = [fd] ->
    tc_kind c = KCategoric -> comp_encoding c = Treatment ref -> NoDup (dc_levels fd) ->
    exists num o d,
      categoric_data (tc_value c) = Ok (num, o, d) /\
      dg_groups dg = dc_levels fd /\
      forall i x, nth_error d i = Some (Some x) ->
        let erow := nth i (dt_rows (dg_expr dg)) [] in
        let n := List.length (dc_levels fd) in
        (forall k, index_of x (dc_levels fd) = Some k ->
                   nth i (dg_rows dg) [] =
                   List.concat (map (fun j => if (j =? k)%nat then erow else map nanzero erow) (seq 0 n))) /\
        (forall k, index_of x (dc_levels fd) = Some k -> Forall (fun c0 => c0 <> None) erow ->
                   nth i (dg_rows dg) [] =
                   (repeat (zcell 0) (k * List.length erow) ++ erow ++
                    repeat (zcell 0) ((n - k - 1) * List.length erow))%list) /\
        (index_of x (dc_levels fd) = None ->
         nth i (dg_rows dg) [] = List.concat (map (fun _ => map nanzero erow) (seq 0 n))).
Proof. exact set_data_gterm_block. Qed.

(* any grouping expression (g1:g2:...): labels "effect|group" and entries stay aligned, the group
   varies slowest, the effect fastest *)
Theorem C05_group_labels :
  forall nrows g spans dg,
    set_data_gterm nrows g spans = Ok dg ->
    exists levels,
      (if String.eqb (dt_kind (dg_expr dg)) "intercept" then Ok ["1"%string]
       else match dt_labels (dg_expr dg) with Some l => Ok l | None => Err EType end) = Ok levels /\
      forall i,
        let flabs := label_product (map dc_labs (dg_factor dg)) ":" in
        let frow := nth i (factor_rows (dg_factor dg)) [] in
        let erow := nth i (dt_rows (dg_expr dg)) [] in
        List.length flabs = List.length frow -> List.length levels = List.length erow ->
        combine (dg_labels dg) (nth i (dg_rows dg) []) = gprod (combine flabs frow) (combine levels erow) /\
        List.length (dg_labels dg) = List.length (nth i (dg_rows dg) []).
Proof. exact set_data_gterm_lrow. Qed.

(* The coding of the effect columns: every group-specific term of a built design was coded with ONE flag
   for all its components; the flag is "full" for a group intercept and otherwise "reduced exactly when
   (1|same factor) is in the model". *)
Theorem C05_effect_coding_rule : forall cx data m ds,
  eval_model cx data m = Ok ds ->
  forall dg, In dg (ds_group ds) ->
  exists g tg,
    In g (groups m) /\ set_type_gterm cx data g = Ok tg /\
    let flag := group_spans (groups m) g in
    set_data_gterm (ds_nrows ds) tg flag = Ok dg /\
    set_data_term (ds_nrows ds) (tg_expr tg) (SpBool flag) = Ok (dg_expr dg) /\
    Forall (fun d => dc_spans d = flag) (dt_comps (dg_expr dg)) /\
    flag = uniform_flag (map gexpr (sharing (groups m) (gfactor g))) (gexpr g) /\
    (flag = false <-> gexpr g <> CI /\ has_group_intercept (groups m) (gfactor g)).
Proof. exact group_effect_coding_rule. Qed.

(* For the lme4 shapes (1|g), (x|g), (0 + f|g), (f|g) that flag IS what the common-effects analysis
   (pick_contrasts on the effect expressions sharing the factor) prescribes ... *)
Theorem C05_rule_agrees_intercept : agrees_on [TTIntercept].
Proof. exact shape_intercept_agrees. Qed.
Theorem C05_rule_agrees_numeric : forall name c,
  tc_kind c = KNumeric -> agrees_on [TTIntercept; TTTerm name [c]].
Proof. exact shape_numeric_agrees. Qed.
Theorem C05_rule_agrees_categoric_alone : forall name c,
  tc_kind c = KCategoric -> tc_name c = name -> agrees_on [TTTerm name [c]].
Proof. exact shape_categoric_alone_agrees. Qed.
Theorem C05_rule_agrees_categoric_with_intercept : forall name c,
  tc_kind c = KCategoric -> tc_name c = name -> name <> "Intercept"%string ->
  agrees_on [TTIntercept; TTTerm name [c]].
Proof. exact shape_categoric_with_intercept_agrees. Qed.

(* ... and for several categorical effects under one factor it is NOT (listed finding KF-C05-1): for
   (0 + f + h|g) the analysis codes h reduced, the model (like the implementation) codes both in full. *)
Theorem C05_refuted_uniform_flag :
  let s := "y ~ (0 + f + h|g)"%string in
  map (uniform_flag_t (gc_effects s)) (gc_effects s) = [true; true] /\
  encoding_bools (map term_kind_info (gc_effects s))
    = Ok [("f"%string, [[("f"%string, true)]]); ("h"%string, [[("h"%string, false)]])] /\
  ~ agrees_on (gc_effects s).
Proof. cbv zeta. destruct uniform_flag_refuted as (_ & _ & H1 & H2 & H3). auto. Qed.

(* A group-specific block IS a common interaction term with the grouping factor written first and coded in
   full: for every group-specific term of a built design the rows are the row-wise Kronecker product over
   (factor components ++ effect components), the factor components in full coding, the effect components with
   the term's flag; for a group intercept they are the factor rows.  (C05_rank.v then reads that term as
   codings over the factors and derives rank and span on crossed data.) *)
Theorem C05_group_block_is_common_interaction : forall cx data m ds,
  eval_model cx data m = Ok ds ->
  forall dg, In dg (ds_group ds) ->
  exists g tg,
    In g (groups m) /\ set_type_gterm cx data g = Ok tg /\
    let flag := group_spans (groups m) g in
    set_data_gterm (ds_nrows ds) tg flag = Ok dg /\
    Forall (fun d => dc_spans d = true) (dg_factor dg) /\
    Forall (fun d => dc_spans d = flag) (dt_comps (dg_expr dg)) /\
    match gexpr g with
    | CI => dg_rows dg = firstn (ds_nrows ds) (factor_rows (dg_factor dg))
    | _ => gfactor g <> CT [] -> dg_rows dg = factor_rows (dg_factor dg ++ dt_comps (dg_expr dg))
    end.
Proof. exact group_term_is_common_interaction. Qed.

(* ... literally: building the common term "g:e" with g in full gives the same rows, and its labels gr:lv
   correspond position by position to the labels lv|gr of the group term *)
Theorem C05_group_term_as_common_term : forall nrows tg flag dg s ename cs,
  set_data_gterm nrows tg flag = Ok dg -> tg_expr tg = TTTerm ename cs ->
  tg_factor tg <> [] -> spans_factor_full s tg flag ->
  Forall nonempty_labels (dg_factor dg ++ dt_comps (dg_expr dg)) ->
  exists dt levels labs,
    set_data_term nrows (as_common tg) s = Ok dt /\
    dt_comps dt = dg_factor dg ++ dt_comps (dg_expr dg) /\
    dt_rows dt = dg_rows dg /\
    dt_labels (dg_expr dg) = Some levels /\
    dt_labels dt = Some labs /\
    labs = flat_map (fun gr => map (fun lv => (gr ++ ":" ++ lv)%string) levels) (gfactor_labels dg) /\
    dg_labels dg = flat_map (fun gr => map (fun lv => (lv ++ "|" ++ gr)%string) levels) (gfactor_labels dg) /\
    Forall2 label_corr (dg_labels dg) labs.
Proof. exact gterm_as_common_term. Qed.

Print Assumptions C05_group_block_is_common_interaction.
Print Assumptions C05_group_term_as_common_term.
Print Assumptions C05_effect_coding_rule.
Print Assumptions C05_rule_agrees_categoric_with_intercept.
Print Assumptions C05_refuted_uniform_flag.
Print Assumptions C05_onehot_kron.
Print Assumptions C05_group_block.
Print Assumptions C05_group_labels.
