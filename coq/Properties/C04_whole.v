(* C04 -- every design-matrix column holds exactly what its label says, for the WHOLE design (the
   flattened common matrix and its flattened label list), label uniqueness, the response
   (C15, observed at dm.response) and the order of the levels.
   Model: Model/Design.v (eval_model, design_matrices: Term / Call / Variable / Response .set_data and
   .labels, CommonEffectsMatrix / GroupEffectsMatrix of formulae/matrices.py); proofs in
   Proofs/DesignWhole.v.  Wrappers only. *)
From Verif Require Import Base Tokens Lazy Algebra Coding Contrasts Frame Eval Design Driver.
From Verif Require Import DesignStructure DesignCoding DesignSum FrameStructure HelpersProofs.
From Verif Require Import Prediction PredictionGroups Containers CodingOptions ResponseProofs DesignMatrixComp.
From Verif Require Import DesignWhole.
From Coq Require Import Sorted.
From Verif Require Tie.
Local Close Scope Qc_scope.
Local Close Scope Q_scope.
Local Open Scope string_scope.
Local Open Scope list_scope.
Local Open Scope nat_scope.

(* The structured label of a column: one (component, piece) pair per component of its term, [] for
   the intercept ([slabel]); [print_slabel] joins the pieces' labels with ":", [denote_slabel l i]
   is the product of what the pieces denote on observation i ([denote n l]: the column). *)

(** 1. The whole common matrix: labels = printed structured labels, row i = their denotations on
       observation i; same order, same number. *)
Theorem C04_whole_design : forall cx e data na ds,
  frame_wf data -> scalar_extras cx -> design_matrices cx e data na = Ok ds -> supported_design ds ->
  common_labels ds = map print_slabel (design_columns ds) /\
  List.length (common_matrix ds) = ds_nrows ds /\
  forall i, i < ds_nrows ds ->
    nth i (common_matrix ds) [] = map (fun l => denote_slabel l i) (design_columns ds).
Proof. exact design_matrices_whole. Qed.

(* column by column *)
Theorem C04_whole_design_column : forall cx e data na ds j sl,
  frame_wf data -> scalar_extras cx -> design_matrices cx e data na = Ok ds -> supported_design ds ->
  nth_error (design_columns ds) j = Some sl ->
  nth_error (common_labels ds) j = Some (print_slabel sl) /\
  matrix_column j (common_matrix ds) = denote (ds_nrows ds) sl.
Proof. exact design_matrices_column. Qed.

(* ... with the denotation computed on the frame of the retained rows of the used columns *)
Theorem C04_whole_design_column_frame : forall cx e data na ds,
  frame_wf data -> scalar_extras cx -> design_matrices cx e data na = Ok ds -> supported_design ds ->
  exists m d,
    describe e = Ok m /\ prepare_data data m na = Ok d /\
    let D := model_frame data d in
    frame_rows D = ds_nrows ds /\
    forall j sl, nth_error (design_columns ds) j = Some sl ->
      let fl := source_label sl in
      nth_error (common_labels ds) j = Some (print_flabel fl) /\
      matrix_column j (common_matrix ds) = denote_frame cx D fl.
Proof. exact design_matrices_column_frame. Qed.

(* labels and columns are equal in number *)
Theorem C04_whole_design_label_count : forall cx e data na ds,
  frame_wf data -> scalar_extras cx -> design_matrices cx e data na = Ok ds -> supported_design ds ->
  (forall i, i < ds_nrows ds -> List.length (common_labels ds) = List.length (nth i (common_matrix ds) [])) /\
  (ds_nrows ds <> 0 -> width (common_matrix ds) = List.length (common_labels ds)).
Proof. exact design_matrices_label_count. Qed.

(* which designs are supported: all but three corner cases, read off the values of the components *)
Theorem C04_supported_designs : forall cx e data na ds,
  frame_wf data -> scalar_extras cx -> design_matrices cx e data na = Ok ds ->
  Forall (fun d => value_ok (dc_t d)) (design_comps ds) -> supported_design ds.
Proof. exact design_matrices_supported. Qed.

(** 2. Label uniqueness (and its refutations when a condition fails). *)
Theorem C04_common_labels_distinct : forall cx e data na ds,
  design_matrices cx e data na = Ok ds ->
  Forall (fun d => Forall colon_free (dc_labs d)) (design_comps ds) ->
  no_bracket_ext (design_comps ds) ->
  Forall (fun d => NoDup (dc_labs d)) (design_comps ds) ->
  NoDup (common_labels ds).
Proof. exact design_matrices_common_labels_NoDup. Qed.

Theorem C04_component_labels_distinct : forall t spans n d,
  coded_comp' t -> set_data_comp t spans n = Ok d -> mean_not_a_kept_level t spans -> NoDup (dc_labs d).
Proof. exact coded_comp_labels_NoDup. Qed.

Theorem C04_group_labels_distinct : forall cx e data na ds,
  design_matrices cx e data na = Ok ds ->
  Forall (fun d => Forall colon_free (dc_labs d)) (group_comps ds) ->
  Forall (fun d => Forall bar_free (dc_labs d)) (group_factor_comps ds) ->
  no_bracket_ext (group_comps ds) ->
  Forall (fun d => NoDup (dc_labs d)) (group_comps ds) ->
  NoDup (group_labels ds).
Proof. exact design_matrices_group_labels_NoDup. Qed.

(* a variable named `f[a]` next to the factor f *)
Theorem C04_label_clash_backquote_refuted :
  WholeRefuted.common_clash "y ~ 0 + f + `f[a]`" WholeRefuted.D_bq 0 2 "f[a]".
Proof. exact (proj1 WholeRefuted.label_clash_backquote_refuted). Qed.

(* a level "a]:g[v" of f next to the interaction f:g *)
Theorem C04_label_clash_level_refuted :
  WholeRefuted.common_clash "y ~ 0 + f + f:g" WholeRefuted.D_lv 1 2 "f[a]:g[v]".
Proof. exact (proj1 WholeRefuted.label_clash_level_refuted). Qed.

(* a level named "mean" under full Sum coding *)
Theorem C04_label_clash_mean_refuted :
  WholeRefuted.common_clash "y ~ 0 + C(f, Sum)" WholeRefuted.D_mean 0 1 "C(f, Sum)[mean]".
Proof. exact (proj1 WholeRefuted.label_clash_mean_refuted). Qed.

(** 3. The response: its labels are the labels of its pieces, every row holds what they denote. *)
Theorem C15_response_columns : forall t n d,
  tc_response t = true -> resp_supported t -> set_data_comp t true n = Ok d ->
  dc_labels d = resp_labels t /\
  forall i, i < List.length (dc_rows d) ->
    nth i (dc_rows d) [] = map (fun p => denote_piece' p (resp_datum t i)) (resp_pieces t).
Proof. exact response_comp_denote. Qed.

Theorem C15_response_of_design : forall cx l op r data na ds,
  tkind op = TILDE -> design_matrices cx (EBinary l op r) data na = Ok ds ->
  exists m d c t rt dc,
    describe (EBinary l op r) = Ok m /\ resolve l = Ok (VT [c]) /\ prepare_data data m na = Ok d /\
    set_type_comp cx (model_frame data d) true c = Ok t /\
    ds_response ds = Some rt /\ dt_comps rt = [dc] /\ dt_name rt = comp_name c /\
    (resp_supported t ->
     dt_labels rt = resp_labels t /\
     forall i, i < List.length (dt_rows rt) ->
       nth i (dt_rows rt) [] = map (fun p => denote_piece' p (resp_datum t i)) (resp_pieces t)).
Proof. exact design_matrices_response. Qed.

(** 4. Level order. *)
Theorem C04_string_order :
  (forall a, ~ str_lt a a) /\
  (forall a b c, str_lt a b -> str_lt b c -> str_lt a c) /\
  (forall a b, str_lt a b \/ a = b \/ str_lt b a) /\
  (forall a b, str_leb a b = true <-> str_lt a b \/ a = b).
Proof. exact str_lt_strict_total. Qed.

Theorem C04_levels_order : forall t spans n d,
  tc_kind t = KCategoric -> set_data_comp t spans n = Ok d ->
  match tc_value t with
  | PStrs None xs =>
      StronglySorted str_lt (dc_levels d) /\ NoDup (dc_levels d) /\
      forall x, In x (dc_levels d) <-> In (Some x) xs
  | PStrs (Some cats) _ => dc_levels d = cats
  | PBox _ _ _ (Some l) => dc_levels d = l /\ NoDup l
  | PBox false data _ None =>
      StronglySorted str_lt (dc_levels d) /\ NoDup (dc_levels d) /\
      forall x, In x (dc_levels d) <-> In (Some x) data
  | PBox true data _ None =>
      exists zs, dc_levels d = map zshow zs /\ StronglySorted Z.lt zs /\
                 forall z, In z zs <-> In z (level_ints (present data))
  | PSeries true xs =>
      exists zs, dc_levels d = map zshow zs /\ StronglySorted Z.lt zs /\
                 forall z, In z zs <-> In z (cell_ints xs)
  | _ => True
  end.
Proof. exact comp_levels_order. Qed.

Theorem C04_levels_numeric_not_textual :
  sort_levels true ["10"; "2"; "1"; "10"] = ["1"; "2"; "10"] /\
  sort_levels false ["10"; "2"; "1"; "10"] = ["1"; "10"; "2"] /\
  str_lt "10" "2" /\ (2 < 10)%Z.
Proof. exact levels_numeric_not_textual. Qed.

Print Assumptions C04_whole_design.
Print Assumptions C04_whole_design_column_frame.
Print Assumptions C04_supported_designs.
Print Assumptions C04_common_labels_distinct.
Print Assumptions C04_group_labels_distinct.
Print Assumptions C04_label_clash_backquote_refuted.
Print Assumptions C04_label_clash_level_refuted.
Print Assumptions C04_label_clash_mean_refuted.
Print Assumptions C15_response_columns.
Print Assumptions C15_response_of_design.
Print Assumptions C04_levels_order.
