(* C06 -- evaluating new data reproduces the training encoding.
   Model: Model/Design.v new_comp / new_term / new_common (Variable/Call/Term.eval_new_data,
   CommonEffectsMatrix.evaluate_new_data) and Model/Eval.v eval_lazy (prediction pass e_fit = false
   replays the parameters recorded by the training pass: nothing is re-estimated).
   Fragment ([model_ok], [safe_gen]): variables (numeric, string, ordered within their declared
   categories), literals, arithmetic, I, center, scale, standardize, offset, C/S/T without levels=,
   and (the _gen versions) poly and bs.  Excluded = listed findings: binary/B (KF-C06-2),
   C(x, levels=...) and C(<ordered>) (KF-C06-1); refuted examples in Proofs/PredictionExamples.v.
   The group matrix is covered as well (C06_new_group_rows_are_training_rows). *)
From Verif Require Import Base Tokens Lazy Algebra Frame Eval Design History FrameStructure Prediction PredictionGroups.
From Verif Require Tie.
Local Close Scope Qc_scope.
Local Close Scope Q_scope.

(* any row multiset of the training frame: any order, any repetition, single rows, subsets lacking
   levels -- the new common matrix is exactly those rows of the training matrix, in every mode *)
Theorem C06_new_rows_are_training_rows :
  forall cx e D na m ds idx mode,
    describe e = Ok m -> frame_wf D -> frame_rows D <> 0%nat -> used_cols D m <> [] ->
    na = NaPass \/ anyb (incomplete_mask D m) = false ->
    scalar_extras cx -> model_ok [] cx D m ->
    design_matrices cx e D na = Ok ds ->
    new_common cx mode ds (frame_pick idx D) = Ok (NewRes (pick idx (common_matrix ds)) false).
Proof. exact design_new_common_pick. Qed.

(* the same with poly and bs among the transforms (bs refuses an empty selection) *)
Theorem C06_new_rows_are_training_rows_splines :
  forall extra cx e D na m ds idx mode,
    extra_allowed extra ->
    (In "bs"%string extra -> seln (sel_pick idx) (frame_rows D) <> 0%nat) ->
    describe e = Ok m -> frame_wf D -> frame_rows D <> 0%nat -> used_cols D m <> [] ->
    na = NaPass \/ anyb (incomplete_mask D m) = false ->
    scalar_extras cx -> model_ok extra cx D m ->
    design_matrices cx e D na = Ok ds ->
    new_common cx mode ds (frame_pick idx D) = Ok (NewRes (pick idx (common_matrix ds)) false).
Proof. exact design_new_common_pick_gen. Qed.

(* the group-specific matrix: the same rows of the training matrix, the ORIGINAL slices (nothing is
   widened: no row of the training data belongs to an unseen group), no new factors, no warning *)
Theorem C06_new_group_rows_are_training_rows :
  forall extra cx e D na m ds idx mode,
    extra_allowed extra ->
    describe e = Ok m -> frame_wf D -> frame_rows D <> 0%nat -> used_cols D m <> [] ->
    na = NaPass \/ anyb (incomplete_mask D m) = false ->
    scalar_extras cx -> model_ok_groups extra cx D m ->
    seln (sel_pick idx) (frame_rows D) <> 0%nat ->
    design_matrices cx e D na = Ok ds ->
    new_group cx mode ds (frame_pick idx D) =
    Ok (NewGroup (pick idx (group_matrix ds)) (group_slices ds) [] false).
Proof. exact design_new_group_pick_gen. Qed.

(* frozen parameters: the prediction pass consumes exactly the state the training pass recorded,
   in recording order, and computes the selected rows of the training value *)
Theorem C06_frozen_parameters :
  forall extra idx D ex sq l v st1 rec,
    extra_allowed extra ->
    (In "bs"%string extra -> seln (sel_pick idx) (frame_rows D) <> 0%nat) ->
    frame_wf D -> frame_unordered D ->
    (forall k w, assoc k ex = Some w -> is_scalar w = true) ->
    safe_gen extra l = true ->
    eval_lazy (ECtx D ex sq true) [] l = Ok (v, st1, rec) ->
    st1 = [] /\
    eval_lazy (ECtx (frame_pick idx D) ex sq false) rec l = Ok (val_sel (sel_pick idx) v, [], []).
Proof. exact eval_lazy_pick_gen. Qed.

(* the prediction pass never records parameters, whatever the call tree *)
Theorem C06_prediction_records_nothing :
  forall d ex sq l, predict_pure (eval_lazy (ECtx d ex sq false)) l.
Proof. exact eval_lazy_predict_pure. Qed.

(* evaluating new data leaves the design (an immutable value in the model) and the history state alone *)
Theorem C06_state_unchanged :
  forall p s i fr, fst (step p s (OEvalCommon i fr)) = s /\ fst (step p s (OEvalGroup i fr)) = s.
Proof. exact eval_new_state_unchanged. Qed.

Print Assumptions C06_new_rows_are_training_rows.
Print Assumptions C06_new_rows_are_training_rows_splines.
Print Assumptions C06_new_group_rows_are_training_rows.
Print Assumptions C06_frozen_parameters.
