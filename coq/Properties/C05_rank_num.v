(* C05 (third file, MathComp style) -- "on fully crossed data the columns belonging to one grouping factor are
   linearly independent and span all group-by-cell means of the effect expression", for NUMERIC effects:
   (x|g) = (1|g) + (x|g),  (0 + x|g),  (x + z|g), and any effect matrix E with p columns.
   For a numeric effect "fully crossed" is not the right condition: what is needed is that the effect matrix
   has full column rank WITHIN every group; the theorems below say exactly that, in both directions.

   Setting (LinAlg/GroupRankNum.v): F any field, n rows, G levels, grp : 'I_n -> 'I_G, E : 'M[F]_(n, p).
     gblock grp E : 'M_(n, p * G)   column (j, l) = [grp i == l] * E i j   (row-wise Kronecker product of the
                                    one-hot matrix of grp with E; effect-major columns)
     gblock_lm                      the same in level-major order (C05_num_layout: same column space)
     onehot F grp : 'M_(n, G)       the block of (1|g)
     gsub grp l M                   the rows of M that belong to group l
     int_slope x = [1, x]           the effect matrix of (x|g)
   "v is in the column space of M" is  (v^T <= M^T)%MS ; "the columns of M : 'M_(n, k) are linearly
   independent" is  \rank M == k  (= row_free M^T, C05_num_row_free). *)
From mathcomp Require Import all_ssreflect all_algebra.
From Verif Require Import Contrast Tensor GroupRank GroupRankNum.
From Verif Require Tie.

Set Implicit Arguments.
Unset Strict Implicit.
Local Open Scope ring_scope.

(* clause 1: (1|g) + (x|g) -- independent iff x is not constant within any group *)
Theorem C05_num_intercept_slope (F : fieldType) (n G : nat) (grp : 'I_n -> 'I_G) (x : 'cV[F]_n) :
  reflect (forall l, exists i i', [/\ grp i = l, grp i' = l & x i 0 != x i' 0])
          (\rank (gblock grp (int_slope x)) == ((1 + 1) * G)%N).
Proof. exact: group_int_slope_indepP. Qed.

(* the same for the two terms laid side by side, [ (1|g) | (x|g) ] *)
Theorem C05_num_intercept_slope_terms (F : fieldType) (n G : nat) (grp : 'I_n -> 'I_G) (x : 'cV[F]_n) :
  (\rank (row_mx (onehot F grp) (gblock grp x)) == ((1 + 1) * G)%N) =
  [forall l, exists i, exists i', [&& grp i == l, grp i' == l & x i 0 != x i' 0]].
Proof. exact: group_int_slope_terms_indep. Qed.

Theorem C05_num_intercept_slope_two_rows (F : fieldType) (n G : nat) (grp : 'I_n -> 'I_G) (x : 'cV[F]_n) :
  \rank (gblock grp (int_slope x)) == ((1 + 1) * G)%N -> forall l, (1 < #|[pred i | grp i == l]|)%N.
Proof. exact: group_int_slope_two_rows. Qed.

(* clause 2: (0 + x|g) -- independent iff every group has a row with x != 0 *)
Theorem C05_num_slope (F : fieldType) (n G : nat) (grp : 'I_n -> 'I_G) (x : 'cV[F]_n) :
  reflect (forall l, exists i, grp i = l /\ x i 0 != 0) (\rank (gblock grp x) == (1 * G)%N).
Proof. exact: group_slope_indepP. Qed.

(* clause 3: any effect matrix -- the rank of the block is the sum of the within-group ranks, and it is
   full iff E has full column rank within every group *)
Theorem C05_num_rank (F : fieldType) (n G : nat) (grp : 'I_n -> 'I_G) p (E : 'M[F]_(n, p)) :
  \rank (gblock grp E) = (\sum_l \rank (gsub grp l E))%N.
Proof. exact: rank_gblock. Qed.

Theorem C05_num_full_rank (F : fieldType) (n G : nat) (grp : 'I_n -> 'I_G) p (E : 'M[F]_(n, p)) :
  (\rank (gblock grp E) == (p * G)%N) = [forall l, \rank (gsub grp l E) == p].
Proof. exact: gblock_full_rank. Qed.

Theorem C05_num_row_free (F : fieldType) (n G : nat) (grp : 'I_n -> 'I_G) p (E : 'M[F]_(n, p)) :
  row_free (gblock grp E)^T = [forall l, row_free (gsub grp l E)^T].
Proof. exact: gblock_row_free. Qed.

Theorem C05_num_independent (F : fieldType) (n G : nat) (grp : 'I_n -> 'I_G) p (E : 'M[F]_(n, p)) :
  reflect (forall l (c : 'cV[F]_p), (forall i, grp i = l -> (E *m c) i 0 = 0) -> c = 0)
          (\rank (gblock grp E) == (p * G)%N).
Proof. exact: gblock_indepP. Qed.

Theorem C05_num_small_group (F : fieldType) (n G : nat) (grp : 'I_n -> 'I_G) p (E : 'M[F]_(n, p)) l :
  (#|[pred i | grp i == l]| < p)%N -> (\rank (gblock grp E) < p * G)%N.
Proof. exact: gblock_small_group. Qed.

(* (x + z|g) *)
Theorem C05_num_two_slopes (F : fieldType) (n G : nat) (grp : 'I_n -> 'I_G) (x z : 'cV[F]_n) :
  let E := row_mx (const_mx 1 : 'cV[F]_n) (row_mx x z) in
  (\rank (gblock grp E) == ((1 + (1 + 1)) * G)%N) = [forall l, \rank (gsub grp l E) == 3%N].
Proof. exact: group_two_slopes_indep. Qed.

(* clause 4: the column space of the block is the set of the vectors that are, within each group, a
   regression on E -- unconditionally; its dimension is p * G under the condition of clause 3 *)
Theorem C05_num_span (F : fieldType) (n G : nat) (grp : 'I_n -> 'I_G) p (E : 'M[F]_(n, p)) (v : 'cV[F]_n) :
  reflect (forall l, exists c : 'cV[F]_p, forall i, grp i = l -> v i 0 = (E *m c) i 0)
          (v^T <= (gblock grp E)^T)%MS.
Proof. exact: gblock_spanP. Qed.

Theorem C05_num_span_sub (F : fieldType) (n G : nat) (grp : 'I_n -> 'I_G) p (E : 'M[F]_(n, p)) (v : 'cV[F]_n) :
  (v^T <= (gblock grp E)^T)%MS = [forall l, ((gsub grp l v)^T <= (gsub grp l E)^T)%MS].
Proof. exact: gblock_span. Qed.

Theorem C05_num_span_dim (F : fieldType) (n G : nat) (grp : 'I_n -> 'I_G) p (E : 'M[F]_(n, p)) :
  (forall l, \rank (gsub grp l E) = p) -> \rank (gblock grp E) = (p * G)%N.
Proof. exact: gblock_span_dim. Qed.

(* the block applied to a table of coefficients: every row gets the regression of its own group *)
Theorem C05_num_block_action (F : fieldType) (n G : nat) (grp : 'I_n -> 'I_G) p (E : 'M[F]_(n, p))
        (A : 'M[F]_(p, G)) i :
  (gblock grp E *m (mxvec A)^T) i 0 = (E *m A) i (grp i).
Proof. exact: gblock_mulE. Qed.

(* column layout: level-major / several terms side by side give the same column space *)
Theorem C05_num_layout (F : fieldType) (n G : nat) (grp : 'I_n -> 'I_G) p (E : 'M[F]_(n, p)) :
  ((gblock_lm grp E)^T :=: (gblock grp E)^T)%MS.
Proof. exact: gblock_lm_eqmx. Qed.

Theorem C05_num_terms (F : fieldType) (n G : nat) (grp : 'I_n -> 'I_G) p1 p2
        (E1 : 'M[F]_(n, p1)) (E2 : 'M[F]_(n, p2)) :
  ((row_mx (gblock grp E1) (gblock grp E2))^T :=: (gblock grp (row_mx E1 E2))^T)%MS.
Proof. exact: gblock_row_mx. Qed.

(* clause 5: a common intercept next to (1|g) is rank deficient for every data set; in general the
   columns of a common effect lie in the span of the group block of the same effect *)
Theorem C05_num_group_columns_sum_to_intercept (F : fieldType) (n G : nat) (grp : 'I_n -> 'I_G) :
  onehot F grp *m const_mx 1 = (const_mx 1 : 'cV[F]_n).
Proof. exact: onehot_rowsum. Qed.

Theorem C05_num_intercept_group_deficient (F : fieldType) (n G : nat) (grp : 'I_n -> 'I_G) :
  (\rank (row_mx (const_mx 1%R : 'cV[F]_n) (onehot F grp)) < 1 + G)%N.
Proof. exact: intercept_group_deficient. Qed.

Theorem C05_num_common_in_group_span (F : fieldType) (n G : nat) (grp : 'I_n -> 'I_G) p (E : 'M[F]_(n, p)) :
  (E^T <= (gblock grp E)^T)%MS.
Proof. exact: common_in_group_span. Qed.

Theorem C05_num_common_group_deficient (F : fieldType) (n G : nat) (grp : 'I_n -> 'I_G) p (E : 'M[F]_(n, p)) :
  (0 < p)%N -> (\rank (row_mx E (gblock grp E)) < p + p * G)%N.
Proof. exact: common_group_deficient. Qed.

(* (1|g) alone: as many independent columns as observed levels *)
Theorem C05_num_onehot_rank (F : fieldType) (n G : nat) (grp : 'I_n -> 'I_G) :
  \rank (onehot F grp) = #|[pred l | [exists i, grp i == l]]|.
Proof. exact: rank_onehot. Qed.

(* link with C05_rank.v: on observed cells the column of (1|g) there is the one-hot column here *)
Theorem C05_num_onehot_is_group_intercept (F : fieldType) (I : finType) (nl : I -> nat)
        (C : forall f : I, 'M[F]_((nl f).+1, nl f)) (g : I) (n : nat)
        (obs : 'I_n -> {dffun forall f : I, 'I_(nl f).+1}) q i :
  bcol C (c_int [set g]) q (obs i) = onehot F (fun i => obs i g) i (q g).
Proof. exact: onehot_bcol. Qed.

(* six rows, two groups of three, over rat: x = 0..5; z constant and w zero on the first group *)
Theorem C05_num_example :
  [/\ \rank (gblock grp6 (int_slope x6)) = 4%N, (\rank (gblock grp6 (int_slope z6)) < 4)%N,
      \rank (gblock grp6 x6) = 2%N & (\rank (gblock grp6 w6) < 2)%N].
Proof. exact: And4 ex6_int_slope ex6_int_slope_constant ex6_slope ex6_slope_zero. Qed.

Print Assumptions C05_num_intercept_slope.
Print Assumptions C05_num_intercept_slope_terms.
Print Assumptions C05_num_intercept_slope_two_rows.
Print Assumptions C05_num_slope.
Print Assumptions C05_num_rank.
Print Assumptions C05_num_full_rank.
Print Assumptions C05_num_row_free.
Print Assumptions C05_num_independent.
Print Assumptions C05_num_small_group.
Print Assumptions C05_num_two_slopes.
Print Assumptions C05_num_span.
Print Assumptions C05_num_span_sub.
Print Assumptions C05_num_span_dim.
Print Assumptions C05_num_block_action.
Print Assumptions C05_num_layout.
Print Assumptions C05_num_terms.
Print Assumptions C05_num_group_columns_sum_to_intercept.
Print Assumptions C05_num_intercept_group_deficient.
Print Assumptions C05_num_common_in_group_span.
Print Assumptions C05_num_common_group_deficient.
Print Assumptions C05_num_onehot_rank.
Print Assumptions C05_num_onehot_is_group_intercept.
Print Assumptions C05_num_example.
