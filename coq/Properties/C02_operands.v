(* C02, identity of call atoms: the order of the OPERANDS of an operator inside a call argument is
   part of the atom.  Model/Lazy.v [lazy_eqb] on [LzOp]: same symbol, operands equal position by
   position -- for every symbol, no commutativity identification (neither has the library).
   Proofs: Proofs/OperandOrder.v.  [lazy_ok]: the keyword dictionaries inside have distinct keys
   (true of every resolved call, Proofs/CompEq.v); without it [lazy_eqb] is not symmetric. *)
From Verif Require Import Base Tokens Lazy Algebra Wilkinson CompEq AlgebraRefines KeywordOrder OperandOrder.
Local Open Scope string_scope.
Local Open Scope list_scope.

Theorem C02_operator_eq_spec :
  forall s1 l1 s2 l2,
    lazy_eqb (LzOp s1 l1) (LzOp s2 l2) = true <->
    s1 = s2 /\ Forall2 (fun p q => lazy_eqb p q = true) l1 l2.
Proof. exact op_eqb_spec. Qed.

(* swapped operands are equal only if the operands are equal, for EVERY symbol *)
Theorem C02_operand_swap :
  forall s a b, lazy_ok a -> lazy_ok b ->
    lazy_eqb (LzOp s [a; b]) (LzOp s [b; a]) = lazy_eqb a b.
Proof. exact operand_swap. Qed.

Theorem C02_operand_swap_raw :
  forall s a b, lazy_eqb (LzOp s [a; b]) (LzOp s [b; a]) = lazy_eqb a b && lazy_eqb b a.
Proof. exact operand_swap_raw. Qed.

Theorem C02_operand_swap_refuted_without_distinct_keys :
  exists s a b, lazy_ok b /\ lazy_eqb a b = true /\ lazy_eqb (LzOp s [a; b]) (LzOp s [b; a]) = false.
Proof. exact operand_swap_refuted_without_distinct_keys. Qed.

Example C02_plus_and_times_not_commutative :
  lazy_eqb (LzOp "+" [LzVar "x"; LzVar "z"]) (LzOp "+" [LzVar "z"; LzVar "x"]) = false /\
  lazy_eqb (LzOp "*" [LzVar "x"; LzVar "z"]) (LzOp "*" [LzVar "z"; LzVar "x"]) = false /\
  lazy_eqb (LzOp "==" [LzVar "x"; LzVar "z"]) (LzOp "==" [LzVar "z"; LzVar "x"]) = false.
Proof. exact plus_and_times_not_commutative. Qed.

(* f(a s b) and f(b s a), for operands a, b that differ: different atoms, components, terms *)
Theorem C02_swapped_atoms_differ :
  forall s f a b, lazy_ok a -> lazy_ok b -> lazy_eqb a b = false ->
    lazy_eqb (lz_ab s f a b) (lz_ba s f a b) = false /\ lazy_eqb (lz_ba s f a b) (lz_ab s f a b) = false.
Proof. exact atoms_differ. Qed.

Theorem C02_swapped_terms_differ :
  forall s f a b, lazy_ok a -> lazy_ok b -> lazy_eqb a b = false ->
    term_eqb [c_ab s f a b] [c_ba s f a b] = false /\ term_eqb [c_ba s f a b] [c_ab s f a b] = false.
Proof. exact terms_differ. Qed.

(* the operators, in the form of Properties/C02.v: the term sets *)
Theorem C02_swapped_add_keeps_both :
  forall s f a b, lazy_ok a -> lazy_ok b -> lazy_eqb a b = false ->
    exists v, v_add (VT [c_ab s f a b]) (VT [c_ba s f a b]) = Ok v /\
              Rp v [[c_ab s f a b]; [c_ba s f a b]] /\ fset_eqb [c_ab s f a b] [c_ba s f a b] = false.
Proof. exact Rp_add_two. Qed.

Theorem C02_swapped_sub_removes_nothing :
  forall s f a b, lazy_ok a -> lazy_ok b -> lazy_eqb a b = false ->
    exists v, v_sub (VT [c_ab s f a b]) (VT [c_ba s f a b]) = Ok v /\ Rp v [[c_ab s f a b]].
Proof. exact Rp_sub_other. Qed.

Theorem C02_swapped_colon_two_factors :
  forall s f a b, lazy_ok a -> lazy_ok b -> lazy_eqb a b = false ->
    exists v, v_matmul (VT [c_ab s f a b]) (VT [c_ba s f a b]) = Ok v /\
              Rp v [[c_ab s f a b; c_ba s f a b]] /\ comp_eqb (c_ab s f a b) (c_ba s f a b) = false.
Proof. exact Rp_colon_two. Qed.

(* the exact values *)
Theorem C02_swapped_values :
  forall s f x z, x <> z ->
    let c1 := c_ab s f (LzVar x) (LzVar z) in
    let c2 := c_ba s f (LzVar x) (LzVar z) in
    lazy_eqb (lz_ab s f (LzVar x) (LzVar z)) (lz_ba s f (LzVar x) (LzVar z)) = false /\
    comp_eqb c1 c2 = false /\ term_eqb [c1] [c2] = false /\
    v_add (VT [c1]) (VT [c2]) = Ok (VM (pmodel [[c1]; [c2]])) /\
    v_sub (VT [c1]) (VT [c2]) = Ok (VT [c1]) /\
    (do v <- v_add (VT [c1]) (VT [c2]); v_sub v (VT [c2])) = Ok (VM (pmodel [[c1]])) /\
    v_matmul (VT [c1]) (VT [c2]) = Ok (VT [c1; c2]) /\
    v_mul (VT [c1]) (VT [c2]) = Ok (VM (pmodel [[c1]; [c2]; [c1; c2]])).
Proof. exact variable_operands. Qed.

(* syntax trees: f(x op z) and f(z op x), every binary operator of the call grammar *)
Theorem C02_swapped_trees :
  forall f x op z sym pl mi co,
    lookup_kind (tkind op) binary_symbols = Some sym ->
    tkind pl = PLUS -> tkind mi = MINUS -> tkind co = COLON -> lexeme x <> lexeme z ->
    let e1 := call1 f (EBinary (var x) op (var z)) in
    let e2 := call1 f (EBinary (var z) op (var x)) in
    let c1 := c_ab sym (lexeme f) (LzVar (lexeme x)) (LzVar (lexeme z)) in
    let c2 := c_ab sym (lexeme f) (LzVar (lexeme z)) (LzVar (lexeme x)) in
    resolve (EBinary e1 pl e2) = Ok (VM (pmodel [[c1]; [c2]])) /\
    resolve (EBinary e1 mi e2) = Ok (VT [c1]) /\
    resolve (EBinary (EBinary e1 pl e2) mi e2) = Ok (VM (pmodel [[c1]])) /\
    resolve (EBinary e1 co e2) = Ok (VT [c1; c2]).
Proof. exact tree_operand_order. Qed.

(* texts *)
Example C02_text_add : names "y ~ I(x - z) + I(z - x)" = Some (Some "y", ["Intercept"; "I(x - z)"; "I(z - x)"], []).
Proof. exact OperandOrder.text_add. Qed.
Example C02_text_sub : names "y ~ I(x / z) + w - I(z / x)" = Some (Some "y", ["Intercept"; "I(x / z)"; "w"], []).
Proof. exact OperandOrder.text_sub. Qed.
Example C02_text_colon : names "y ~ I(x - z):I(z - x)" = Some (Some "y", ["Intercept"; "I(x - z):I(z - x)"], []).
Proof. exact OperandOrder.text_colon. Qed.
Example C02_text_braces : names "y ~ {x ** 2} + {2 ** x}" = Some (Some "y", ["Intercept"; "I(x ** 2)"; "I(2 ** x)"], []).
Proof. exact text_braces. Qed.
Example C02_text_plus : names "y ~ I(x + z) + I(z + x)" = Some (Some "y", ["Intercept"; "I(x + z)"; "I(z + x)"], []).
Proof. exact text_plus. Qed.

Print Assumptions C02_operator_eq_spec.
Print Assumptions C02_operand_swap.
Print Assumptions C02_operand_swap_refuted_without_distinct_keys.
Print Assumptions C02_swapped_terms_differ.
Print Assumptions C02_swapped_add_keeps_both.
Print Assumptions C02_swapped_sub_removes_nothing.
Print Assumptions C02_swapped_colon_two_factors.
Print Assumptions C02_swapped_values.
Print Assumptions C02_swapped_trees.
