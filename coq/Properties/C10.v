(* C10 -- unseen levels and new groups at prediction follow the configured policy
   (Model/Design.v new_categoric / new_term / new_gterm / new_group; Model/History.v parse_mode). *)
From Verif Require Import Base Frame Design History DesignStructure Unseen.
From Verif Require Generated Tie.
Local Close Scope Qc_scope.
Local Close Scope Q_scope.

Theorem C10_unseen_error_iff :
  forall d cm xs, dc_contrast d = Some cm ->
    (new_categoric UError d xs = Err EValue <-> exists x, In x xs /\ unseen_val (dc_levels d) x = true).
Proof. exact unseen_error_iff. Qed.

(* warning / silent: an unseen value gives a zero row, a seen value the row it has without them *)
Theorem C10_unseen_zero_rows :
  forall mode d cm xs rows w,
    dc_contrast d = Some cm -> new_categoric mode d xs = Ok (rows, w) ->
    List.length rows = List.length xs /\
    forall i x, nth_error xs i = Some x ->
      (unseen_val (dc_levels d) x = true -> nth i rows [] = repeat (zcell 0) (contrast_width cm)) /\
      (unseen_val (dc_levels d) x = false -> new_categoric UError d [x] = Ok ([nth i rows []], false)).
Proof. exact unseen_zero_rows. Qed.

(* ... and every column of a term involving that variable is zero on that row *)
Theorem C10_term_zero_on_unseen_rows :
  forall cx mode data t rows w parts i,
    String.eqb (dt_kind t) "intercept" = false ->
    mapM (new_comp cx mode data) (dt_comps t) = Ok parts ->
    new_term cx mode data t = Ok (rows, w) ->
    Forall (fun p => clean_row (nth i (fst p) [])) parts ->
    Exists (fun p => zero_row (nth i (fst p) [])) parts -> zero_row (nth i rows []).
Proof. exact new_term_unseen_row. Qed.

Theorem C10_warns_iff :
  forall mode d xs rows w, new_categoric mode d xs = Ok (rows, w) ->
    (w = true <-> mode = UWarning /\ exists x, In x xs /\ unseen_val (dc_levels d) x = true).
Proof. exact warns_iff. Qed.

(* unseen groups: exactly one trailing block, 1 exactly on the new-group rows; earlier blocks unchanged *)
Theorem C10_new_group_block :
  forall cx mode data g rows w,
    new_gterm cx mode data g = Ok (rows, w) ->
    exists x p rest,
      new_term cx mode data (dg_expr g) = Ok x /\
      mapM (new_comp cx mode data) (dg_factor g) = Ok (p :: rest) /\
      let j := fold_left rows_kron (map fst rest) (fst p) in
      rows = rows_kron (extend_zero_rows j) (fst x) /\
      w = snd x || existsb (fun q => snd q) (p :: rest) /\
      List.length (extend_zero_rows j) = List.length j /\
      (Forall (fun r => ~ zero_row r) j -> extend_zero_rows j = j) /\
      (Exists zero_row j -> forall i, i < List.length j ->
         nth i (extend_zero_rows j) [] = (nth i j [] ++ [if all_zero (nth i j []) then zcell 1 else zcell 0])%list).
Proof. exact new_group_block. Qed.

(* factors_with_new_levels = exactly the factors of the terms that were widened, once each *)
Theorem C10_factors_with_new_levels :
  forall cx mode ds data ng,
    new_group cx mode ds data = Ok ng ->
    exists parts,
      mapM (new_gterm cx mode data) (ds_group ds) = Ok parts /\
      ng_new_factors ng =
        first_occ (map (fun p => dg_factor_name (fst p)) (filter width_changed (combine (ds_group ds) parts))) /\
      NoDup (ng_new_factors ng) /\
      (forall f, In f (ng_new_factors ng) <->
                 exists g p, In (g, p) (combine (ds_group ds) parts) /\
                             width (fst p) <> width (dg_rows g) /\ dg_factor_name g = f) /\
      ng_warned ng = existsb (fun x => snd x) parts.
Proof. exact new_group_new_factors. Qed.

(* the configuration accepts exactly its documented values (regenerated from config.py) *)
Theorem C10_config_validates :
  forall v, (exists m, parse_mode v = Some m) <->
            v = "error"%string \/ v = "warning"%string \/ v = "silent"%string.
Proof. exact config_accepts_iff. Qed.
Example C10_config_fields :
  Generated.gen_config_fields = [("EVAL_UNSEEN_CATEGORIES"%string, ["error"%string; "warning"%string; "silent"%string])].
Proof. reflexivity. Qed.

Print Assumptions C10_unseen_zero_rows.
Print Assumptions C10_new_group_block.
Print Assumptions C10_factors_with_new_levels.
