(* C03 / C13 -- numeric-categorical interactions: the factor of a:N is coded in FULL unless the
   numeric part N is itself a term (under the name the model spells, concat_with ":" N; see
   KF-C03-3); numeric main effects do not count.  Thin restatements of Proofs/NumericPart.v and
   Proofs/NumericPartDesign.v. *)
From Verif Require Import Base Contrasts Frame Design DesignCoding NumericPart NumericPartDesign.
Local Open Scope string_scope.
Local Open Scope list_scope.

Theorem C03_numeric_part_full_iff :
  forall (name a : string) (comps : list (string * ckind)) (N : list string),
    cat_of comps = [a] -> num_of comps = N -> N <> [] -> name <> concat_with ":" N ->
    forall ts, around name (TInter name comps) ts ->
    forall r, encoding_bools ts = Ok r ->
      (dict_get name r = Some [[(a, true)]] <-> ~ In (concat_with ":" N) (map tinfo_name ts)) /\
      (dict_get name r = Some [[(a, false)]] <-> In (concat_with ":" N) (map tinfo_name ts)).
Proof. exact numeric_part_full_iff. Qed.

Theorem C03_numeric_part_total :
  forall (name a : string) (comps : list (string * ckind)) (N : list string),
    cat_of comps = [a] -> num_of comps = N -> N <> [] -> name <> concat_with ":" N ->
    forall ts, around name (TInter name comps) ts ->
    Forall (fun t => noncat t = true) ts -> exists r, encoding_bools ts = Ok r.
Proof. exact numeric_part_total. Qed.

Theorem C03_main_effects_do_not_count :
  forall a x z, full_coded a x z [TIntercept; Tx x; Tz z; Taxz a x z] /\
                full_coded a x z [Tx x; Tz z; Taxz a x z].
Proof. exact main_effects_do_not_count. Qed.

Theorem C03_alone_full :
  forall a x z, full_coded a x z [TIntercept; Taxz a x z] /\ full_coded a x z [Taxz a x z].
Proof. exact alone_full. Qed.

Theorem C03_numeric_part_term_reduces :
  forall a x z,
    reduced_coded a x z [TIntercept; Txz x z; Taxz a x z] /\ reduced_coded a x z [Txz x z; Taxz a x z] /\
    reduced_coded a x z [TIntercept; Tx x; Tz z; Txz x z; Taxz a x z] /\
    reduced_coded a x z [Tx x; Tz z; Txz x z; Taxz a x z].
Proof. exact numeric_part_term_reduces. Qed.

Theorem C03_widened_rule_differs :
  exists s, np_flag encoding_bools s <> np_flag encoding_bools_w s /\
            np_flag encoding_bools_w s = Some [[("f", false)]] /\
            ~ In "x:z" (map tinfo_name (np_infos s)).
Proof. exact widened_rule_differs. Qed.

Theorem C13_full_block_row_sum :
  forall (lv : list string) (x : string) (q : Qc),
    NoDup lv -> In x lv -> rsum (map (fun l => cmul (ind x l) (Some q)) lv) = Some q.
Proof. exact full_block_row_sum. Qed.

Print Assumptions C03_numeric_part_full_iff.
Print Assumptions C03_numeric_part_total.
Print Assumptions C03_main_effects_do_not_count.
Print Assumptions C03_numeric_part_term_reduces.
Print Assumptions C03_widened_rule_differs.
Print Assumptions C13_full_block_row_sum.
