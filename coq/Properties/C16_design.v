(* C16 at the level of whole designs ([design_matrices], [new_common]): restatements only.
   Proofs: Proofs/HelpersDesign.v.  Formulas are syntax trees  EBinary lhs "~" (EBinary rhs "+" term);
   the texts the scanner and parser accept produce exactly such trees (examples *_parsed there). *)
From Verif Require Import Base Tokens Lazy Algebra Coding Contrasts Frame Eval Design.
From Verif Require Import DesignStructure FrameStructure ResponseProofs ResponseIndep HelpersProofs HelpersPrediction HelpersDesign.
Local Close Scope Qc_scope.
Local Close Scope Q_scope.
Local Open Scope string_scope.
Local Open Scope list_scope.

(* ---- the engine: one more single-component, non-categoric common term ---- *)
Theorem C16d_model_append :
  forall cx d r cs gs c tc dc,
    name_fresh (comp_name c) cs ->
    set_type_comp cx d false c = Ok tc -> tc_kind tc <> KCategoric ->
    set_data_comp tc false (frame_rows d) = Ok dc ->
    eval_model cx d (Mod r (cs ++ [CT [c]]) gs) =
    (do D0 <- eval_model cx d (Mod r cs gs); Ok (add_common D0 (single_dterm tc dc))).
Proof. exact eval_model_append. Qed.

Theorem C16d_new_common_append :
  forall cx mode D0 t data,
    new_common cx mode (add_common D0 t) data =
    (do r0 <- new_common cx mode D0 data;
     do p <- new_term cx mode data t;
     Ok (NewRes (glue (nr_rows r0) (fst p)) (nr_warned r0 || snd p))).
Proof. exact new_common_append. Qed.

(* ---- 1. offset ---- *)
Theorem C16d_offset_variable :
  forall cx D na l r tl pl f cy b cs gs,
    tkind tl = TILDE -> tkind pl = PLUS -> lexeme f = "offset" ->
    resolve l = Ok (VT [cy]) -> resolve r = Ok b -> rhs_main b = Some (cs, gs) ->
    frame_wf D -> frame_rows D <> 0%nat -> used_cols D (Mod (Some [cy]) cs gs) <> [] ->
    forall x v i xs,
      lexeme x = v -> assoc v D = Some (ColNum i xs) ->
      has_colon v = false -> Forall (cterm_avoid (offset_name (LzVar v))) cs ->
      na = NaPass \/ anyb (incomplete_mask D (Mod (Some [cy]) (cs ++ [CT [offset_comp (LzVar v)]]) gs)) = false ->
      design_matrices cx (EBinary l tl (EBinary r pl (ecall f [evar x]))) D na =
      (do D0 <- design_matrices cx (EBinary l tl r) D na;
       Ok (add_common D0 (offset_dterm (LzVar v) None xs (frame_rows D)))).
Proof. exact offset_var_design. Qed.

Theorem C16d_offset_variable_iff :
  forall cx D na l r tl pl f cy b cs gs,
    tkind tl = TILDE -> tkind pl = PLUS -> lexeme f = "offset" ->
    resolve l = Ok (VT [cy]) -> resolve r = Ok b -> rhs_main b = Some (cs, gs) ->
    frame_wf D -> frame_rows D <> 0%nat -> used_cols D (Mod (Some [cy]) cs gs) <> [] ->
    forall x v i xs D1,
      lexeme x = v -> assoc v D = Some (ColNum i xs) ->
      has_colon v = false -> Forall (cterm_avoid (offset_name (LzVar v))) cs ->
      na = NaPass \/ anyb (incomplete_mask D (Mod (Some [cy]) (cs ++ [CT [offset_comp (LzVar v)]]) gs)) = false ->
      (design_matrices cx (EBinary l tl (EBinary r pl (ecall f [evar x]))) D na = Ok D1 <->
       exists D0, design_matrices cx (EBinary l tl r) D na = Ok D0 /\
                  D1 = add_common D0 (offset_dterm (LzVar v) None xs (frame_rows D))).
Proof. exact offset_var_design_iff. Qed.

Theorem C16d_offset_constant :
  forall cx D na l r tl pl f cy b cs gs,
    tkind tl = TILDE -> tkind pl = PLUS -> lexeme f = "offset" ->
    resolve l = Ok (VT [cy]) -> resolve r = Ok b -> rhs_main b = Some (cs, gs) ->
    frame_wf D -> frame_rows D <> 0%nat -> used_cols D (Mod (Some [cy]) cs gs) <> [] ->
    forall lv lx i q,
      lit_value lv = PNumber i q ->
      cmem (CT [offset_comp (LzVal lv lx)]) cs = false ->
      has_colon (lazy_str (LzVal lv lx)) = false -> Forall (cterm_avoid (offset_name (LzVal lv lx))) cs ->
      na = NaPass \/ anyb (incomplete_mask D (Mod (Some [cy]) (cs ++ [CT [offset_comp (LzVal lv lx)]]) gs)) = false ->
      design_matrices cx (EBinary l tl (EBinary r pl (ecall f [ELiteral lv lx]))) D na =
      (do D0 <- design_matrices cx (EBinary l tl r) D na;
       Ok (add_common D0 (offset_dterm (LzVal lv lx) (Some q) [] (frame_rows D)))).
Proof. exact offset_const_design. Qed.

Theorem C16d_offset_constant_rows :
  forall a q xs n, List.length (dt_rows (offset_dterm a (Some q) xs n)) = n.
Proof. exact offset_const_rows. Qed.

Theorem C16d_offset_variable_at_prediction :
  forall cx mode D0 v xs n new i' xs',
    assoc v new = Some (ColNum i' xs') ->
    new_common cx mode (add_common D0 (offset_dterm (LzVar v) None xs n)) new =
    (do r0 <- new_common cx mode D0 new; Ok (NewRes (glue (nr_rows r0) (col1 xs')) (nr_warned r0))).
Proof. exact offset_var_new_common. Qed.

Theorem C16d_offset_constant_at_prediction :
  forall cx mode D0 a q xs n new,
    new_common cx mode (add_common D0 (offset_dterm a (Some q) xs n)) new =
    (do r0 <- new_common cx mode D0 new;
     Ok (NewRes (glue (nr_rows r0) (repeat [Some q] (frame_rows new))) (nr_warned r0))).
Proof. exact offset_const_new_common. Qed.

Theorem C16d_offset_missing_values_drop :
  forall cx D l r tl pl f cy b cs gs x v i xs,
    tkind tl = TILDE -> tkind pl = PLUS -> lexeme f = "offset" ->
    resolve l = Ok (VT [cy]) -> resolve r = Ok b -> rhs_main b = Some (cs, gs) ->
    frame_wf D -> frame_rows D <> 0%nat -> used_cols D (Mod (Some [cy]) cs gs) <> [] ->
    lexeme x = v -> assoc v D = Some (ColNum i xs) ->
    has_colon v = false -> Forall (cterm_avoid (offset_name (LzVar v))) cs ->
    let keep := complete_mask D (Mod (Some [cy]) (cs ++ [CT [offset_comp (LzVar v)]]) gs) in
    count_true keep <> 0%nat ->
    design_matrices cx (EBinary l tl (EBinary r pl (ecall f [evar x]))) D NaDrop =
    (do D0 <- design_matrices cx (EBinary l tl r) (frame_select keep D) NaDrop;
     Ok (add_common D0 (offset_dterm (LzVar v) None (select keep xs) (count_true keep)))).
Proof. exact offset_var_design_drop. Qed.

(* ---- 2. prop / p / proportion ---- *)
Theorem C16d_prop_response :
  forall cx D na r tl f xs_tok b cs gs,
    tkind tl = TILDE -> In (lexeme f) prop_callees ->
    resolve r = Ok b -> rhs_terms b = Some (cs, gs) -> frame_wf D -> frame_rows D <> 0%nat ->
    forall xn i j ss ts sl tls,
      let s := lexeme xs_tok in let n := lexeme xn in
      assoc s D = Some (ColNum i ss) -> assoc n D = Some (ColNum j ts) ->
      all_some ss = Some sl -> all_some ts = Some tls ->
      na = NaPass \/ anyb (incomplete_mask D (Mod (Some [prop_comp (lexeme f) s (LzVar n)]) cs gs)) = false ->
      design_matrices cx (EBinary (ecall f [evar xs_tok; evar xn]) tl r) D na =
      (do p <- eval_predictors cx D cs gs;
       if prop_ok sl tls
       then Ok (Design (frame_rows D) (Some (prop_dterm (lexeme f) s (LzVar n) ss ts None)) (fst p) (snd p))
       else Err EValue).
Proof. exact prop_design. Qed.

Theorem C16d_prop_validation :
  forall sl tl,
    prop_ok sl tl = true <->
    Forall (fun q => is_integer q = true) sl /\ Forall (fun q => is_integer q = true) tl /\
    Forall (fun p => (fst p <= snd p)%Qc) (combine sl tl).
Proof. exact prop_ok_iff. Qed.

Theorem C16d_prop_response_on_new_frame :
  forall cx mode new callee s n ss ts k xs',
    assoc n new = Some (ColNum k xs') ->
    new_term cx mode new (prop_dterm callee s (LzVar n) ss ts None) = Ok (col1 xs', false).
Proof. exact prop_response_new_term. Qed.

Theorem C16d_prop_spellings :
  forall cx D na f1 f2 args tl r,
    tkind tl = TILDE -> In (lexeme f1) prop_callees -> In (lexeme f2) prop_callees ->
    (exists k, design_matrices cx (EBinary (ecall f1 args) tl r) D na = Err k /\
               design_matrices cx (EBinary (ecall f2 args) tl r) D na = Err k) \/
    (exists nm src,
       design_matrices cx (EBinary (ecall f2 args) tl r) D na =
       (do D1 <- design_matrices cx (EBinary (ecall f1 args) tl r) D na; Ok (retag_response nm src D1))).
Proof. exact prop_alias_design. Qed.

(* ---- 3. binary / B ---- *)
Theorem C16d_binary_response :
  forall cx D na r tl f yt b cs gs,
    tkind tl = TILDE -> In (lexeme f) binary_callees ->
    resolve r = Ok b -> rhs_terms b = Some (cs, gs) -> frame_wf D -> frame_rows D <> 0%nat ->
    forall s lx o ys,
      let y := lexeme yt in
      let c := binary_comp (lexeme f) y [LzVal (LStr s) lx] in
      assoc y D = Some (ColStr o ys) ->
      na = NaPass \/ anyb (incomplete_mask D (Mod (Some [c]) cs gs)) = false ->
      design_matrices cx (EBinary (ecall f [evar yt; ELiteral (LStr s) lx]) tl r) D na =
      (do p <- eval_predictors cx D cs gs;
       if existsb (str_hit s) ys
       then Ok (Design (frame_rows D) (Some (series_dterm c true true (indicator s ys))) (fst p) (snd p))
       else Err EValue).
Proof. exact binary_response_design. Qed.

Theorem C16d_binary_response_default :
  forall cx D na r tl f yt b cs gs,
    tkind tl = TILDE -> In (lexeme f) binary_callees ->
    resolve r = Ok b -> rhs_terms b = Some (cs, gs) -> frame_wf D -> frame_rows D <> 0%nat ->
    forall o ys,
      let y := lexeme yt in
      let c := binary_comp (lexeme f) y [] in
      assoc y D = Some (ColStr o ys) ->
      na = NaPass \/ anyb (incomplete_mask D (Mod (Some [c]) cs gs)) = false ->
      design_matrices cx (EBinary (ecall f [evar yt]) tl r) D na =
      (do p <- eval_predictors cx D cs gs;
       match sorted_unique_str (present ys) with
       | s :: _ => Ok (Design (frame_rows D) (Some (series_dterm c true true (indicator s ys))) (fst p) (snd p))
       | [] => Err EIndex
       end).
Proof. exact binary_response_default_design. Qed.

Theorem C16d_binary_predictor :
  forall cx D na l r tl pl f xt cy b cs gs s lx,
    tkind tl = TILDE -> tkind pl = PLUS -> In (lexeme f) binary_callees ->
    resolve l = Ok (VT [cy]) -> resolve r = Ok b -> rhs_main b = Some (cs, gs) ->
    cmem (CT [binary_comp (lexeme f) (lexeme xt) [LzVal (LStr s) lx]]) cs = false ->
    frame_wf D -> frame_rows D <> 0%nat -> used_cols D (Mod (Some [cy]) cs gs) <> [] ->
    na = NaPass \/
    anyb (incomplete_mask D (Mod (Some [cy]) (cs ++ [CT [binary_comp (lexeme f) (lexeme xt) [LzVal (LStr s) lx]]]) gs)) = false ->
    forall o ys,
      assoc (lexeme xt) D = Some (ColStr o ys) ->
      existsb (str_hit s) ys = true ->
      name_fresh (comp_name (binary_comp (lexeme f) (lexeme xt) [LzVal (LStr s) lx])) cs ->
      design_matrices cx (EBinary l tl (EBinary r pl (ecall f [evar xt; ELiteral (LStr s) lx]))) D na =
      (do D0 <- design_matrices cx (EBinary l tl r) D na;
       Ok (add_common D0 (series_dterm (binary_comp (lexeme f) (lexeme xt) [LzVal (LStr s) lx]) false true (indicator s ys)))).
Proof. exact binary_predictor_design. Qed.

Theorem C16d_binary_predictor_refused :
  forall cx D na l r tl pl f xt cy b cs gs s lx,
    tkind tl = TILDE -> tkind pl = PLUS -> In (lexeme f) binary_callees ->
    resolve l = Ok (VT [cy]) -> resolve r = Ok b -> rhs_main b = Some (cs, gs) ->
    cmem (CT [binary_comp (lexeme f) (lexeme xt) [LzVal (LStr s) lx]]) cs = false ->
    frame_wf D -> frame_rows D <> 0%nat -> used_cols D (Mod (Some [cy]) cs gs) <> [] ->
    na = NaPass \/
    anyb (incomplete_mask D (Mod (Some [cy]) (cs ++ [CT [binary_comp (lexeme f) (lexeme xt) [LzVal (LStr s) lx]]]) gs)) = false ->
    forall o ys,
      assoc (lexeme xt) D = Some (ColStr o ys) ->
      existsb (str_hit s) ys = false ->
      is_ok (design_matrices cx (EBinary l tl (EBinary r pl (ecall f [evar xt; ELiteral (LStr s) lx]))) D na) = false.
Proof. exact binary_predictor_refused. Qed.

Theorem C16d_binary_numeric_response :
  forall cx D na r tl f yt b cs gs z lx i xs ql,
    tkind tl = TILDE -> In (lexeme f) binary_callees ->
    resolve r = Ok b -> rhs_terms b = Some (cs, gs) -> frame_wf D -> frame_rows D <> 0%nat ->
    let y := lexeme yt in
    let c := binary_comp (lexeme f) y [LzVal (LInt z) lx] in
    assoc y D = Some (ColNum i xs) -> all_some xs = Some ql ->
    na = NaPass \/ anyb (incomplete_mask D (Mod (Some [c]) cs gs)) = false ->
    design_matrices cx (EBinary (ecall f [evar yt; ELiteral (LInt z) lx]) tl r) D na =
    (do p <- eval_predictors cx D cs gs;
     if existsb (fun v => Qc_eq_bool v (qz z)) ql
     then Ok (Design (frame_rows D) (Some (series_dterm c true true (indicator_num (qz z) ql))) (fst p) (snd p))
     else Err EValue).
Proof. exact binary_num_response_design. Qed.

Theorem C16d_binary_predictor_default :
  forall cx D na l r tl pl f xt cy b cs gs o ys s rest,
    tkind tl = TILDE -> tkind pl = PLUS -> In (lexeme f) binary_callees ->
    resolve l = Ok (VT [cy]) -> resolve r = Ok b -> rhs_main b = Some (cs, gs) ->
    let x := lexeme xt in
    let c := binary_comp (lexeme f) x [] in
    cmem (CT [c]) cs = false -> name_fresh (comp_name c) cs ->
    frame_wf D -> frame_rows D <> 0%nat -> used_cols D (Mod (Some [cy]) cs gs) <> [] ->
    na = NaPass \/ anyb (incomplete_mask D (Mod (Some [cy]) (cs ++ [CT [c]]) gs)) = false ->
    assoc x D = Some (ColStr o ys) -> sorted_unique_str (present ys) = s :: rest ->
    design_matrices cx (EBinary l tl (EBinary r pl (ecall f [evar xt]))) D na =
    (do D0 <- design_matrices cx (EBinary l tl r) D na;
     Ok (add_common D0 (series_dterm c false true (indicator s ys)))).
Proof. exact binary_predictor_default_design. Qed.

Theorem C16d_binary_at_prediction :
  forall cx mode D0 callee x s lx ys0 new o ys,
    In callee binary_callees -> assoc x new = Some (ColStr o ys) ->
    new_common cx mode (add_common D0 (series_dterm (binary_comp callee x [LzVal (LStr s) lx]) false true ys0)) new =
    (do r0 <- new_common cx mode D0 new;
     if existsb (str_hit s) ys then Ok (NewRes (glue (nr_rows r0) (col1 (indicator s ys))) (nr_warned r0))
     else Err EValue).
Proof. exact binary_new_common. Qed.

(* ---- 4. I(e) and {e} ---- *)
Theorem C16d_same_erasure_same_design :
  forall cx e1 e2 D na, erase e1 = erase e2 -> design_matrices cx e1 D na = design_matrices cx e2 D na.
Proof. exact design_same_erasure. Qed.

Theorem C16d_I_is_braces :
  forall cx l tl t e D na,
    lexeme t = "I" ->
    design_matrices cx (EBinary l tl (ecall t [e])) D na =
    design_matrices cx (EBinary l tl (ecall Parser.I_token [e])) D na.
Proof. exact I_braces_design. Qed.

Theorem C16d_I_is_braces_after_plus :
  forall cx l tl r pl t e D na,
    lexeme t = "I" ->
    design_matrices cx (EBinary l tl (EBinary r pl (ecall t [e]))) D na =
    design_matrices cx (EBinary l tl (EBinary r pl (ecall Parser.I_token [e]))) D na.
Proof. exact I_braces_design_plus. Qed.

Theorem C16d_I_of_variable :
  forall cx D na l r tl pl cy b cs gs xt i xs,
    tkind tl = TILDE -> tkind pl = PLUS ->
    resolve l = Ok (VT [cy]) -> resolve r = Ok b -> rhs_main b = Some (cs, gs) ->
    frame_wf D -> frame_rows D <> 0%nat -> used_cols D (Mod (Some [cy]) cs gs) <> [] ->
    assoc (lexeme xt) D = Some (ColNum i xs) ->
    forall t,
      lexeme t = "I" ->
      cmem (CT [I_comp (lexeme xt)]) cs = false -> name_fresh (comp_name (I_comp (lexeme xt))) cs ->
      na = NaPass \/ anyb (incomplete_mask D (Mod (Some [cy]) (cs ++ [CT [I_comp (lexeme xt)]]) gs)) = false ->
      design_matrices cx (EBinary l tl (EBinary r pl (ecall t [evar xt]))) D na =
      (do D0 <- design_matrices cx (EBinary l tl r) D na;
       Ok (add_common D0 (series_dterm (I_comp (lexeme xt)) false i xs))).
Proof. exact I_var_design. Qed.

(* ---- clauses that are false of the model (and of the implementation): witnesses ---- *)
Theorem C16d_prop_nonnegative_refuted :
  exists Dd rt,
    design_matrices OffsetExamples.cx0 (PropExamples.e_prop "prop") PropExamples.trials_negative NaDrop = Ok Dd /\
    ds_response Dd = Some rt /\
    map (map cshow) (dt_rows rt) = [["-1"; "3"]; ["2"; "2"]; ["0"; "5"]].
Proof. exact PropExamples.prop_nonnegative_refuted. Qed.

Theorem C16d_binary_default_frozen_refuted :
  exists D1 bt,
    design_matrices OffsetExamples.cx0 BinaryExamples.e_pred_default OffsetExamples.train NaDrop = Ok D1 /\
    nth_error (ds_common D1) 2 = Some bt /\ dt_rows bt = col1 (indicator "a" BinaryExamples.gs_col) /\
    BinaryExamples.show_new (new_common OffsetExamples.cx0 UError D1 BinaryExamples.new_b)
      = Ok [["1"; "1"; "0"]; ["1"; "0"; "1"]; ["1"; "2"; "1"]] /\
    map (map cshow) (col1 (indicator "a" [Some "c"; Some "b"; Some "b"])) = [["0"]; ["0"]; ["0"]].
Proof. exact BinaryExamples.binary_default_frozen_refuted. Qed.

Theorem C16d_prop_spellings_literal_refuted :
  exists D1 D2,
    design_matrices OffsetExamples.cx0 (PropExamples.e_prop "p") PropExamples.trials NaDrop = Ok D1 /\
    design_matrices OffsetExamples.cx0 (PropExamples.e_prop "prop") PropExamples.trials NaDrop = Ok D2 /\
    D1 <> D2 /\
    option_map dt_name (ds_response D1) = Some "p(s, n)" /\
    option_map dt_name (ds_response D2) = Some "prop(s, n)".
Proof. exact PropExamples.prop_alias_literal_refuted. Qed.

Theorem C16d_offset_after_group_refuted :
  is_ok (design_matrices OffsetExamples.cx0 (EBinary OffsetExamples.lhs OffsetExamples.tilde_t OffsetExamples.grp)
           OffsetExamples.train NaDrop) = true /\
  design_matrices OffsetExamples.cx0
    (EBinary OffsetExamples.lhs OffsetExamples.tilde_t
       (EBinary OffsetExamples.grp OffsetExamples.plus_t
          (ecall (OffsetExamples.id "offset") [evar (OffsetExamples.id "v")])))
    OffsetExamples.train NaDrop = Err EType.
Proof. exact OffsetExamples.offset_after_group_refuted. Qed.

Print Assumptions C16d_model_append.
Print Assumptions C16d_new_common_append.
Print Assumptions C16d_offset_variable.
Print Assumptions C16d_offset_variable_iff.
Print Assumptions C16d_offset_constant.
Print Assumptions C16d_offset_variable_at_prediction.
Print Assumptions C16d_offset_constant_at_prediction.
Print Assumptions C16d_offset_missing_values_drop.
Print Assumptions C16d_prop_response.
Print Assumptions C16d_prop_validation.
Print Assumptions C16d_prop_response_on_new_frame.
Print Assumptions C16d_prop_spellings.
Print Assumptions C16d_binary_response.
Print Assumptions C16d_binary_response_default.
Print Assumptions C16d_binary_predictor.
Print Assumptions C16d_binary_predictor_refused.
Print Assumptions C16d_binary_at_prediction.
Print Assumptions C16d_binary_numeric_response.
Print Assumptions C16d_binary_predictor_default.
Print Assumptions C16d_same_erasure_same_design.
Print Assumptions C16d_I_is_braces.
Print Assumptions C16d_I_of_variable.
Print Assumptions C16d_prop_nonnegative_refuted.
Print Assumptions C16d_binary_default_frozen_refuted.
Print Assumptions C16d_prop_spellings_literal_refuted.
Print Assumptions C16d_offset_after_group_refuted.
