(* C17 -- matrix containers are internally consistent (the part that is logic: slices). *)
From Verif Require Import Base Coding Contrasts Frame Eval Algebra Design DesignStructure DesignCoding FrameStructure Unseen Prediction PredictionGroups Containers.
From Verif Require Tie.
Local Close Scope Qc_scope.
Local Close Scope Q_scope.

(* slices computed from the term widths start at 0, follow the term order, are contiguous and
   end at the total width *)
Theorem C17_slices_contiguous :
  forall names widths,
    List.length names = List.length widths ->
    contiguous 0 (slices_of names widths) (list_sum widths) /\
    map (fun sl => fst (fst sl)) (slices_of names widths) = names /\
    map (fun sl => snd sl - snd (fst sl)) (slices_of names widths) = widths.
Proof. exact slices_contiguous. Qed.

(* the same for the object returned by evaluate_new_data on the group matrix, whatever new
   groups widened it *)
Theorem C17_new_group_slices :
  forall cx mode ds data ng,
    new_group cx mode ds data = Ok ng ->
    exists widths,
      List.length widths = List.length (ds_group ds) /\
      contiguous 0 (ng_slices ng) (list_sum widths) /\
      map (fun sl => fst (fst sl)) (ng_slices ng) = map dg_name (ds_group ds) /\
      map (fun sl => snd sl - snd (fst sl)) (ng_slices ng) = widths.
Proof. exact new_group_slices_contiguous. Qed.

(* stacking blocks: the matrix is as wide as the sum of the block widths, every row included *)
Theorem C17_hstack_width :
  forall blocks n,
    Forall (fun b => List.length b = n) blocks -> Forall regular blocks ->
    Forall (fun r => List.length r = list_sum (map width blocks)) (hstack blocks n) /\
    width (hstack blocks n) = list_sum (map width blocks).
Proof. exact hstack_width. Qed.

(* ---- the functional statements: what indexing by a term name returns ---- *)

(* every design [design_matrices] returns for a rectangular frame has the row count the missing-value
   policy retains and is well shaped (rows regular, term names pairwise distinct) ... *)
Theorem C17_built_design_shape : forall cx e data na ds,
  frame_wf data -> scalar_extras cx -> design_matrices cx e data na = Ok ds ->
  exists m, describe e = Ok m /\ ds_nrows ds = retained data m na /\ design_shape ds.
Proof. exact design_matrices_containers. Qed.

(* ... response, common and group matrices have one row per retained observation ... *)
Theorem C17_row_counts : forall ds,
  design_shape ds ->
  (forall r, ds_response ds = Some r -> List.length (dt_rows r) = ds_nrows ds) /\
  Forall (fun t => List.length (dt_rows t) = ds_nrows ds) (ds_common ds) /\
  Forall (fun g => List.length (dg_rows g) = ds_nrows ds) (ds_group ds) /\
  List.length (common_matrix ds) = ds_nrows ds /\
  List.length (group_matrix ds) = ds_nrows ds.
Proof. exact design_row_counts. Qed.

(* ... indexing the common (group) matrix by a term name returns exactly that term's columns, and a name
   that is not a term name is refused. *)
Theorem C17_common_index : forall ds t,
  design_shape ds -> In t (ds_common ds) ->
  index_by_name (dt_name t) (common_slices ds) (common_matrix ds) = Some (dt_rows t).
Proof. exact design_common_index. Qed.

Theorem C17_common_unknown_refused : forall ds nm,
  ~ In nm (map dt_name (ds_common ds)) -> index_by_name nm (common_slices ds) (common_matrix ds) = None.
Proof. exact design_common_unknown. Qed.

Theorem C17_group_index : forall ds g,
  design_shape ds -> In g (ds_group ds) ->
  index_by_name (dg_name g) (group_slices ds) (group_matrix ds) = Some (dg_rows g).
Proof. exact design_group_index. Qed.

Theorem C17_group_unknown_refused : forall ds nm,
  ~ In nm (map dg_name (ds_group ds)) -> index_by_name nm (group_slices ds) (group_matrix ds) = None.
Proof. exact design_group_unknown. Qed.

(* The objects returned for new data: the group matrix (widened by new groups or not) indexed by a term
   name through the slices it REPORTS returns that term's new block; the common matrix indexed through
   the TRAINING slices (evaluate_new_data keeps self.slices) returns that term's new block. *)
Theorem C17_new_group_index : forall cx mode ds data ng,
  design_shape ds -> frame_wf data -> extras_shape (frame_rows data) cx ->
  new_group cx mode ds data = Ok ng ->
  exists parts,
    mapM (new_gterm cx mode data) (ds_group ds) = Ok parts /\
    List.length (ng_rows ng) = frame_rows data /\
    Forall (fun p => List.length (fst p) = frame_rows data /\ regular_rows (fst p)) parts /\
    ng_slices ng = new_slices (map dg_name (ds_group ds)) parts /\
    forall j g p, nth_error (ds_group ds) j = Some g -> nth_error parts j = Some p ->
      index_by_name (dg_name g) (ng_slices ng) (ng_rows ng) = Some (fst p).
Proof. exact new_group_index. Qed.

Theorem C17_new_common_index : forall cx e data na ds mode newdata r,
  frame_wf data -> scalar_extras cx -> design_matrices cx e data na = Ok ds -> ds_nrows ds <> 0 ->
  frame_wf newdata -> frame_rows newdata <> 0 ->
  new_common cx mode ds newdata = Ok r ->
  List.length (nr_rows r) = frame_rows newdata /\
  exists parts,
    mapM (new_term cx mode newdata) (ds_common ds) = Ok parts /\
    forall j t p, nth_error (ds_common ds) j = Some t -> nth_error parts j = Some p ->
      index_by_name (dt_name t) (common_slices ds) (nr_rows r) = Some (fst p).
Proof. exact design_new_common_index. Qed.

(* Non-vacuity and the necessity of the rectangular-frame premise: see Containers.ContainersExamples
   (ex_shape, ex_new_group_theorem, ragged_frame_row_counts_refuted). *)

Print Assumptions C17_built_design_shape.
Print Assumptions C17_row_counts.
Print Assumptions C17_common_index.
Print Assumptions C17_group_index.
Print Assumptions C17_new_group_index.
Print Assumptions C17_new_common_index.
Print Assumptions C17_slices_contiguous.
Print Assumptions C17_new_group_slices.
Print Assumptions C17_hstack_width.
