(* C17 -- matrix containers are internally consistent (the part that is logic: slices). *)
From Verif Require Import Base Coding Contrasts Frame Eval Design DesignStructure DesignCoding.
From Verif Require Tie.
Local Close Scope Qc_scope.
Local Close Scope Q_scope.

(* slices computed from the term widths start at 0, follow the term order, are contiguous and
   end at the total width *)
Theorem C17_slices_contiguous :
  forall names widths,
    List.length names = List.length widths ->
    contiguous 0 (slices_of names widths) (list_sum widths) /\
    map (fun sl => fst (fst sl)) (slices_of names widths) = names /\
    map (fun sl => snd sl - snd (fst sl)) (slices_of names widths) = widths.
Proof. exact slices_contiguous. Qed.

(* the same for the object returned by evaluate_new_data on the group matrix, whatever new
   groups widened it *)
Theorem C17_new_group_slices :
  forall cx mode ds data ng,
    new_group cx mode ds data = Ok ng ->
    exists widths,
      List.length widths = List.length (ds_group ds) /\
      contiguous 0 (ng_slices ng) (list_sum widths) /\
      map (fun sl => fst (fst sl)) (ng_slices ng) = map dg_name (ds_group ds) /\
      map (fun sl => snd sl - snd (fst sl)) (ng_slices ng) = widths.
Proof. exact new_group_slices_contiguous. Qed.

(* stacking blocks: the matrix is as wide as the sum of the block widths, every row included *)
Theorem C17_hstack_width :
  forall blocks n,
    Forall (fun b => List.length b = n) blocks -> Forall regular blocks ->
    Forall (fun r => List.length r = list_sum (map width blocks)) (hstack blocks n) /\
    width (hstack blocks n) = list_sum (map width blocks).
Proof. exact hstack_width. Qed.

Print Assumptions C17_slices_contiguous.
Print Assumptions C17_new_group_slices.
Print Assumptions C17_hstack_width.
