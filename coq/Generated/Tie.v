(* Layer-A tie: the tables regenerated from /repo's current source (Generated.v) are the tables
   the model is defined from.  Every obligation is closed by reflexivity; if the source tables
   change, this file stops compiling and with it every property file. *)
From Verif Require Import Base Tokens Scanner Parser Lazy Algebra.
From Verif Require Import Generated.
Local Open Scope string_scope.

Example tie_chain : gen_chain = Parser.chain. Proof. reflexivity. Qed.
Example tie_addition_index : gen_addition_index = Parser.addition_index. Proof. reflexivity. Qed.
Example tie_unary_kinds : gen_unary_kinds = Parser.unary_kinds. Proof. reflexivity. Qed.
Example tie_parse_checks_eof : gen_parse_checks_eof = Parser.parse_checks_eof. Proof. reflexivity. Qed.
Example tie_single_chars : gen_single_chars = Scanner.single_chars. Proof. reflexivity. Qed.
Example tie_double_chars : gen_double_chars = Scanner.double_chars. Proof. reflexivity. Qed.
Example tie_whitespace : gen_whitespace = Scanner.whitespace. Proof. reflexivity. Qed.
Example tie_quotes : gen_quotes = Scanner.quotes. Proof. reflexivity. Qed.
Example tie_ident_extra : gen_ident_extra = Scanner.ident_extra. Proof. reflexivity. Qed.
Example tie_python_literals : gen_python_literals = map fst Scanner.python_literals.
Proof. reflexivity. Qed.
Example tie_resolver_ops : gen_resolver_ops = Algebra.resolver_ops. Proof. reflexivity. Qed.
Example tie_binary_symbols : gen_binary_symbols = Lazy.binary_symbols. Proof. reflexivity. Qed.
Example tie_unary_symbols : gen_unary_symbols = Lazy.unary_symbols. Proof. reflexivity. Qed.

(* T5: the TRANSFORMS registry: every name the model's evaluator knows (Eval.stateful_names,
   Eval.function_names) and the object it is bound to -- aliases are bindings to the same object *)
Example tie_transform_registry :
  gen_transform_registry =
  [("B", "binary"); ("C", "C"); ("I", "I"); ("S", "S"); ("T", "T"); ("binary", "binary");
   ("bs", "BSpline"); ("center", "Center"); ("offset", "offset"); ("p", "proportion");
   ("poly", "Polynomial"); ("prop", "proportion"); ("proportion", "proportion"); ("scale", "Scale");
   ("standardize", "Scale")].
Proof. reflexivity. Qed.
Example tie_S_T_bodies : gen_S_encoding = "Sum" /\ gen_T_encoding = "Treatment".
Proof. split; reflexivity. Qed.
(* T6: configuration fields, encodings, accepted na_action values *)
Example tie_config_fields :
  gen_config_fields = [("EVAL_UNSEEN_CATEGORIES", ["error"; "warning"; "silent"])].
Proof. reflexivity. Qed.
Example tie_encodings : gen_encodings = [("Treatment", "Treatment"); ("Sum", "Sum")].
Proof. reflexivity. Qed.
Example tie_na_actions : gen_na_actions = ["drop"; "error"; "pass"].
Proof. reflexivity. Qed.
