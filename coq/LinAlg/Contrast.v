(* Linear algebra of the Treatment and Sum contrast matrices of formulae/categorical.py, for every
   number of levels n = m.+1, every reference / omitted level and every field (Sum coding needs
   n != 0 in the field, e.g. any numFieldType), together with the bridge to the executable list
   model of Model/Coding.v.

   Conventions.  MathComp's matrix spaces are ROW spaces: (A <= B)%MS compares the spans of the rows.
   The column space of a design/contrast matrix A is therefore the row space of A^T, and the
   interchangeability theorems below are stated on transposes ([*_colspace*]); since the matrices
   with a constant column are square and invertible, the same equalities hold without transposes
   as well, and we also give the elementary formulation "every vector y is A *m x" ([*_spans])
   and the reparametrisation formulation "A = B *m P with P invertible" ([*_reparam]).

   stdlib modules are required BEFORE mathcomp and never imported wholesale: after the imports
   `%Z` is ssrint's int_scope, so stdlib integers are written with their constructors. *)
From Coq Require ZArith List.
From Verif Require Base Coding.
From mathcomp Require Import all_ssreflect all_algebra.

Set Implicit Arguments.
Unset Strict Implicit.
Unset Printing Implicit Defensive.

Import GRing.Theory Num.Theory.
Local Open Scope ring_scope.

(* ------------------------------------------------------------------------------------------- *)
(* 1. Treatment coding                                                                           *)
(* ------------------------------------------------------------------------------------------- *)
Section Treatment.
Variables (F : fieldType) (m : nat) (r : 'I_m.+1).

(* Treatment.code_without_intercept: column j is the indicator of the j-th non-reference level *)
Definition treat : 'M[F]_(m.+1, m) := \matrix_(i, j) (i == lift r j)%:R.

(* the design matrix of "1 + a": a column of ones in front of the reduced contrast *)
Definition with_const : 'M[F]_(m.+1, 1 + m) := row_mx (const_mx 1) treat.

(* explicit inverse: first row picks the reference level, row j+1 is e_(lift r j) - e_r *)
Definition inv_treat : 'M[F]_(1 + m, m.+1) :=
  col_mx (delta_mx 0 r) (\matrix_(j, k) ((k == lift r j)%:R - (k == r)%:R)).

Lemma treat_col_indicator i j : treat i j = (i == lift r j)%:R.
Proof. by rewrite mxE. Qed.

Lemma treat_col_delta j : col j treat = (delta_mx (lift r j) 0 : 'cV_m.+1).
Proof. by apply/matrixP=> i k; rewrite !mxE ord1 andbT. Qed.

Lemma treat_ref_row_zero : row r treat = 0.
Proof. by apply/rowP=> j; rewrite !mxE (negbTE (neq_lift r j)). Qed.

(* every non-reference row has exactly one 1 *)
Lemma treat_row_lift j : row (lift r j) treat = delta_mx 0 j.
Proof. by apply/rowP=> k; rewrite !mxE (inj_eq lift_inj) eq_sym. Qed.

Lemma treat_inv : with_const *m inv_treat = 1%:M.
Proof.
rewrite /with_const /inv_treat mul_row_col; apply/matrixP=> i k; rewrite !mxE.
rewrite big_ord1 !mxE eqxx /= mul1r; under eq_bigr => j _ do rewrite !mxE.
case: (unliftP r i) => [j0 ->|->].
- rewrite (bigD1 j0) //= eqxx mul1r big1 ?addr0; last first.
    by move=> j ne; rewrite (inj_eq lift_inj) eq_sym (negbTE ne) mul0r.
  by rewrite addrCA subrr addr0 eq_sym.
- rewrite big1 ?addr0 1?eq_sym // => j _.
  by rewrite (negbTE (neq_lift r j)) mul0r.
Qed.

Lemma treat_unit : with_const \in unitmx.
Proof. by case: (mulmx1_unit treat_inv). Qed.

Lemma treat_inv_left : inv_treat *m with_const = 1%:M.
Proof. exact: mulmx1C treat_inv. Qed.

Lemma treat_invmx : invmx with_const = inv_treat.
Proof.
by rewrite -[LHS]mulmx1 -treat_inv mulmxA (mulVmx treat_unit) mul1mx.
Qed.

Lemma treat_full_rank : row_free with_const.
Proof. by rewrite row_free_unit treat_unit. Qed.

Lemma treat_row_full : row_full with_const.
Proof. by rewrite row_full_unit treat_unit. Qed.

Lemma treat_rank : \rank with_const = m.+1.
Proof. exact: mxrank_unit treat_unit. Qed.

(* the reduced matrix alone has full column rank m *)
Lemma treat_reduced_rank : \rank treat = m.
Proof.
pose c : 'cV[F]_m.+1 := const_mx 1.
apply/eqP; rewrite eqn_leq rank_leq_col /=.
have le1 : (\rank c <= 1)%N by apply: rank_leq_col.
have H : (m.+1 <= \rank c + \rank treat)%N.
  rewrite -{1}treat_rank -mxrank_tr tr_row_mx -addsmxE -(mxrank_tr c) -(mxrank_tr treat).
  exact: (mxrank_adds_leqif _ _).1.
by have := leq_trans H (leq_add le1 (leqnn _)); rewrite add1n ltnS.
Qed.

(* elementary formulation: every response vector is a combination of the columns *)
Lemma treat_spans (y : 'cV[F]_m.+1) : with_const *m (inv_treat *m y) = y.
Proof. by rewrite mulmxA treat_inv mul1mx. Qed.

(* in particular every level indicator is in the column span *)
Lemma treat_spans_indicator (l : 'I_m.+1) :
  with_const *m (inv_treat *m delta_mx l 0) = (delta_mx l 0 : 'cV_m.+1).
Proof. exact: treat_spans. Qed.

End Treatment.

(* ------------------------------------------------------------------------------------------- *)
(* 2. Sum coding                                                                                 *)
(* ------------------------------------------------------------------------------------------- *)
Section Sum.
Variables (F : fieldType) (m : nat) (o : 'I_m.+1).

(* Sum.code_without_intercept *)
Definition sumc : 'M[F]_(m.+1, m) :=
  \matrix_(i, j) (if i == o then -1 else (i == lift o j)%:R).

(* Sum.code_with_intercept: a column of ones ("mean") in front of the reduced matrix *)
Definition sum_full : 'M[F]_(m.+1, 1 + m) := row_mx (const_mx 1) sumc.

(* explicit inverse (needs n^-1): first row is the mean, row j+1 is e_(lift o j) - mean *)
Definition inv_sum : 'M[F]_(1 + m, m.+1) :=
  col_mx (const_mx (m.+1%:R^-1)) (\matrix_(j, k) ((k == lift o j)%:R - m.+1%:R^-1)).

Lemma sum_omit_row j : sumc o j = -1.
Proof. by rewrite mxE eqxx. Qed.

Lemma sum_lift_row j k : sumc (lift o j) k = (j == k)%:R.
Proof. by rewrite mxE lift_eqF (inj_eq lift_inj). Qed.

Lemma sum_cols_zero j : \sum_i sumc i j = 0.
Proof.
rewrite (bigD1 o) //= sum_omit_row (bigD1 (lift o j)) ?lift_eqF //=.
rewrite sum_lift_row eqxx big1 ?addr0 ?addNr // => i /andP[io il].
by rewrite mxE (negbTE io) (negbTE il).
Qed.

(* same fact as a matrix identity: the constant row annihilates the reduced sum matrix *)
Lemma sum_cols_zero_mx : (const_mx 1 : 'rV_m.+1) *m sumc = 0.
Proof.
apply/rowP=> j; rewrite !mxE -[RHS](sum_cols_zero j).
by apply: eq_bigr => i _; rewrite mxE mul1r.
Qed.

Lemma sum_count_lift (k : 'I_m.+1) : \sum_(j < m) (k == lift o j)%:R = (k != o)%:R :> F.
Proof.
case: (unliftP o k) => [j0 ->|->].
- rewrite (bigD1 j0) //= eqxx lift_eqF big1 ?addr0 // => j ne.
  by rewrite (inj_eq lift_inj) eq_sym (negbTE ne).
- by rewrite eqxx big1 // => j _; rewrite eq_liftF.
Qed.

Hypothesis nF : m.+1%:R != 0 :> F.

Lemma sum_inv : sum_full *m inv_sum = 1%:M.
Proof.
rewrite /sum_full /inv_sum mul_row_col; apply/matrixP=> i k; rewrite !mxE.
rewrite big_ord1 !mxE mul1r; under eq_bigr => j _ do rewrite !mxE.
case: (unliftP o i) => [j0 ->|->].
- rewrite (bigD1 j0) //= lift_eqF eqxx mul1r big1 ?addr0; last first.
    by move=> j ne; rewrite (inj_eq lift_inj) eq_sym (negbTE ne) mul0r.
  by rewrite addrCA subrr addr0 eq_sym.
- under eq_bigr => j _ do rewrite eqxx mulN1r opprB.
  rewrite big_split /= sumr_const card_ord sumrN sum_count_lift eq_sym.
  rewrite addrA -mulrS -mulr_natr mulVf //.
  by case: (o == k); rewrite ?subr0 ?subrr.
Qed.

Lemma sum_unit : sum_full \in unitmx.
Proof. by case: (mulmx1_unit sum_inv). Qed.

Lemma sum_invmx : invmx sum_full = inv_sum.
Proof. by rewrite -[LHS]mulmx1 -sum_inv mulmxA (mulVmx sum_unit) mul1mx. Qed.

Lemma sum_inv_left : inv_sum *m sum_full = 1%:M.
Proof. by rewrite -sum_invmx mulVmx ?sum_unit. Qed.

Lemma sum_full_rank : row_free sum_full.
Proof. by rewrite row_free_unit sum_unit. Qed.

Lemma sum_row_full : row_full sum_full.
Proof. by rewrite row_full_unit sum_unit. Qed.

Lemma sum_rank : \rank sum_full = m.+1.
Proof. exact: mxrank_unit sum_unit. Qed.

Lemma sum_spans (y : 'cV[F]_m.+1) : sum_full *m (inv_sum *m y) = y.
Proof. by rewrite mulmxA sum_inv mul1mx. Qed.

End Sum.

(* the characteristic hypothesis is automatic in a numFieldType (rat, real, complex ...) *)
Lemma sum_unit_num (F : numFieldType) m (o : 'I_m.+1) : sum_full F o \in unitmx.
Proof. by apply: sum_unit; rewrite pnatr_eq0. Qed.

Lemma sum_full_rank_num (F : numFieldType) m (o : 'I_m.+1) : row_free (sum_full F o).
Proof. by apply: sum_full_rank; rewrite pnatr_eq0. Qed.

(* the hypothesis cannot be dropped: when n = 0 in F the all-ones row vector annihilates the
   whole matrix (each column sums to 0), so the rows are linearly dependent *)
Lemma sum_singular_char (F : fieldType) m (o : 'I_m.+1) :
  m.+1%:R = 0 :> F -> (const_mx 1 : 'rV_m.+1) *m sum_full F o = 0.
Proof.
move=> n0; rewrite /sum_full mul_mx_row sum_cols_zero_mx -[RHS]row_mx0; congr row_mx.
apply/rowP=> j; rewrite !mxE; under eq_bigr => i _ do rewrite !mxE mul1r.
by rewrite sumr_const card_ord.
Qed.

(* ------------------------------------------------------------------------------------------- *)
(* 3. Full-rank ("with intercept") codings                                                       *)
(* ------------------------------------------------------------------------------------------- *)
Section Full.
Variables (F : fieldType) (m : nat).

(* Treatment.code_with_intercept: one indicator column per level *)
Definition treat_full : 'M[F]_m.+1 := \matrix_(i, j) (i == j)%:R.

Lemma treat_fullE : treat_full = 1%:M.
Proof. by apply/matrixP=> i j; rewrite !mxE. Qed.

Lemma treat_full_unit : treat_full \in unitmx.
Proof. by rewrite treat_fullE unitmx1. Qed.

Lemma treat_full_col j : col j treat_full = (delta_mx j 0 : 'cV_m.+1).
Proof. by apply/matrixP=> i k; rewrite !mxE ord1 andbT. Qed.

(* Sum.code_with_intercept is the matrix sum_full of section 2: invertible, so it spans everything *)
Lemma sum_full_colspace_full (o : 'I_m.+1) :
  m.+1%:R != 0 :> F -> ((sum_full F o)^T :=: 1%:M)%MS.
Proof.
by move=> nF; apply/eqmxP; rewrite submx1 sub1mx row_full_unit unitmx_tr sum_unit.
Qed.

End Full.

(* ------------------------------------------------------------------------------------------- *)
(* 4. Interchangeability for one factor                                                          *)
(* ------------------------------------------------------------------------------------------- *)
Section Interchange.
Variables (F : fieldType) (m : nat).
Hypothesis nF : m.+1%:R != 0 :> F.

(* column spaces (= row spaces of the transposes) *)
Lemma treat_colspace_full (r : 'I_m.+1) : ((with_const F r)^T :=: 1%:M)%MS.
Proof. by apply/eqmxP; rewrite submx1 sub1mx row_full_unit unitmx_tr treat_unit. Qed.

Lemma treat_colspace_indep (r r' : 'I_m.+1) : ((with_const F r)^T :=: (with_const F r')^T)%MS.
Proof. exact: eqmx_trans (treat_colspace_full r) (eqmx_sym (treat_colspace_full r')). Qed.

Lemma treat_sum_colspace (r o : 'I_m.+1) : ((with_const F r)^T :=: (sum_full F o)^T)%MS.
Proof.
exact: eqmx_trans (treat_colspace_full r) (eqmx_sym (sum_full_colspace_full o nF)).
Qed.

Lemma treat_treat_full_colspace (r : 'I_m.+1) : ((with_const F r)^T :=: (treat_full F m)^T)%MS.
Proof. by rewrite treat_fullE trmx1; apply: treat_colspace_full. Qed.

Lemma sum_treat_full_colspace (o : 'I_m.+1) : ((sum_full F o)^T :=: (treat_full F m)^T)%MS.
Proof. by rewrite treat_fullE trmx1; apply: sum_full_colspace_full. Qed.

(* the matrices being square, the row spaces coincide too *)
Lemma treat_rowspace_full (r : 'I_m.+1) : (with_const F r :=: 1%:M)%MS.
Proof. by apply/eqmxP; rewrite submx1 sub1mx treat_row_full. Qed.

Lemma sum_rowspace_full (o : 'I_m.+1) : (sum_full F o :=: 1%:M)%MS.
Proof. by apply/eqmxP; rewrite submx1 sub1mx sum_row_full. Qed.

(* reparametrisation: changing the coding is an invertible change of coefficients,
   so fitted values X *m beta range over the same set *)
Lemma treat_sum_reparam (r o : 'I_m.+1) :
  let P := inv_sum F o *m with_const F r in
  P \in unitmx /\ with_const F r = sum_full F o *m P.
Proof.
split; last by rewrite mulmxA sum_inv // mul1mx.
by rewrite unitmx_mul treat_unit -sum_invmx // unitmx_inv sum_unit.
Qed.

Lemma treat_treat_reparam (r r' : 'I_m.+1) :
  let P := inv_treat F r' *m with_const F r in
  P \in unitmx /\ with_const F r = with_const F r' *m P.
Proof.
split; last by rewrite mulmxA treat_inv mul1mx.
by rewrite unitmx_mul treat_unit -treat_invmx unitmx_inv treat_unit.
Qed.

Lemma same_fitted_values (r o : 'I_m.+1) (y : 'cV[F]_m.+1) :
  (exists b, with_const F r *m b = y) <-> (exists b, sum_full F o *m b = y).
Proof.
split=> _.
- by exists (inv_sum F o *m y); apply: sum_spans.
- by exists (inv_treat F r *m y); apply: treat_spans.
Qed.

End Interchange.

(* ------------------------------------------------------------------------------------------- *)
(* 5. Bridge to the executable model (Model/Coding.v)                                            *)
(* ------------------------------------------------------------------------------------------- *)
Section Bridge.

(* stdlib comparisons on nat vs ssrnat *)
Lemma eqbE a b : PeanoNat.Nat.eqb a b = (a == b).
Proof. by apply/idP/eqP => /PeanoNat.Nat.eqb_eq. Qed.

Lemma ltbE a b : PeanoNat.Nat.ltb a b = (a < b)%N.
Proof. by apply/idP/idP => [/PeanoNat.Nat.ltb_lt/ltP|/ltP/PeanoNat.Nat.ltb_lt]. Qed.

(* Coding.lift is ssreflect's bump ... *)
Lemma Coding_liftE r j : Coding.lift r j = bump r j.
Proof. by rewrite /Coding.lift ltbE /bump ltnNge; case: (r <= j)%N. Qed.

(* ... so MathComp's lift on ordinals computes Coding.lift on the underlying naturals *)
Lemma lift_natE n (r : 'I_n.+1) (j : 'I_n) : nat_of_ord (lift r j) = Coding.lift r j.
Proof. by rewrite Coding_liftE. Qed.

(* the list-of-rows matrix is a table of the entry function *)
Lemma buildE rows cols f :
  Coding.build rows cols f = mkseq (fun i => mkseq (f i) cols) rows.
Proof. by []. Qed.

Lemma build_entry rows cols f i j : (i < rows)%N -> (j < cols)%N ->
  nth BinNums.Z0 (nth [::] (Coding.build rows cols f) i) j = f i j.
Proof. by move=> ir jc; rewrite buildE nth_mkseq // nth_mkseq. Qed.

Lemma build_entry_stdlib rows cols f i j : (i < rows)%N -> (j < cols)%N ->
  List.nth j (List.nth i (Coding.build rows cols f) Datatypes.nil) BinNums.Z0 = f i j.
Proof.
move=> ir jc; rewrite -(build_entry f ir jc).
have nthE T (x : T) s k : List.nth k s x = nth x s k by elim: s k => [|a s IH] [|k] /=.
by rewrite !nthE.
Qed.

Lemma build_size rows cols f : size (Coding.build rows cols f) = rows.
Proof. by rewrite buildE size_mkseq. Qed.

Lemma build_row_size rows cols f i : (i < rows)%N ->
  size (nth [::] (Coding.build rows cols f) i) = cols.
Proof. by move=> ir; rewrite buildE nth_mkseq // size_mkseq. Qed.

(* stdlib Z -> int -> any ring *)
Definition int_of_Z (z : BinNums.Z) : int :=
  match z with
  | BinNums.Z0 => 0
  | BinNums.Zpos p => Posz (BinPos.Pos.to_nat p)
  | BinNums.Zneg p => - Posz (BinPos.Pos.to_nat p)
  end.

Variable F : fieldType.

Definition ZtoF (z : BinNums.Z) : F := (int_of_Z z)%:~R.

Lemma ZtoF0 : ZtoF BinNums.Z0 = 0. Proof. by []. Qed.
Lemma ZtoF1 : ZtoF (BinNums.Zpos BinNums.xH) = 1. Proof. by []. Qed.
Lemma ZtoFN1 : ZtoF (BinNums.Zneg BinNums.xH) = -1.
Proof. by rewrite /ZtoF /= mulrN1z. Qed.

Lemma treat_entryE r i j :
  ZtoF (Coding.treat_entry r i j) = (i == bump r j)%:R.
Proof. by rewrite /Coding.treat_entry eqbE Coding_liftE; case: (i == _). Qed.

Lemma sum_entryE o i j :
  ZtoF (Coding.sum_entry o i j) = if i == o then -1 else (i == bump o j)%:R.
Proof.
rewrite /Coding.sum_entry !eqbE Coding_liftE; case: (i == o); first exact: ZtoFN1.
by case: (i == _).
Qed.

Lemma eye_entryE i j : ZtoF (Coding.eye_entry i j) = (i == j)%:R.
Proof. by rewrite /Coding.eye_entry eqbE; case: (i == j). Qed.

(* the MathComp matrices are the images of the model's entry functions *)
Theorem treat_entry_bridge m (r : 'I_m.+1) (i : 'I_m.+1) (j : 'I_m) :
  ZtoF (Coding.treat_entry r i j) = treat F r i j.
Proof. by rewrite treat_entryE mxE. Qed.

Theorem sum_entry_bridge m (o : 'I_m.+1) (i : 'I_m.+1) (j : 'I_m) :
  ZtoF (Coding.sum_entry o i j) = sumc F o i j.
Proof. by rewrite sum_entryE mxE. Qed.

Theorem eye_entry_bridge m (i j : 'I_m.+1) :
  ZtoF (Coding.eye_entry i j) = treat_full F m i j.
Proof. by rewrite eye_entryE mxE. Qed.

Theorem sumfull_entry_bridge m (o : 'I_m.+1) (i : 'I_m.+1) (j : 'I_(1 + m)) :
  ZtoF (Coding.sumfull_entry o i j) = sum_full F o i j.
Proof.
rewrite /sum_full; case: (splitP j) => [j0 | j0] jE.
- have ->: j = lshift m j0 by apply: val_inj.
  by rewrite row_mxEl mxE ord1.
- have ->: j = rshift 1 j0 by apply: val_inj.
  by rewrite row_mxEr -sum_entry_bridge.
Qed.

(* ... and of the materialised lists: the whole chain list model -> entry function -> matrix *)
Theorem entry_bridge_treat m (r : 'I_m.+1) (i : 'I_m.+1) (j : 'I_m) :
  let M := Coding.build m.+1 (m.+1 - 1) (Coding.treat_entry r) in
  nth BinNums.Z0 (nth [::] M i) j = Coding.treat_entry r i j /\
  ZtoF (nth BinNums.Z0 (nth [::] M i) j) = treat F r i j.
Proof.
have E: nth BinNums.Z0 (nth [::] (Coding.build m.+1 (m.+1 - 1) (Coding.treat_entry r)) i) j
        = Coding.treat_entry r i j by rewrite build_entry // subn1.
by rewrite /= E treat_entry_bridge.
Qed.

Theorem entry_bridge_sum m (o : 'I_m.+1) (i : 'I_m.+1) (j : 'I_m) :
  let M := Coding.build m.+1 (m.+1 - 1) (Coding.sum_entry o) in
  nth BinNums.Z0 (nth [::] M i) j = Coding.sum_entry o i j /\
  ZtoF (nth BinNums.Z0 (nth [::] M i) j) = sumc F o i j.
Proof.
have E: nth BinNums.Z0 (nth [::] (Coding.build m.+1 (m.+1 - 1) (Coding.sum_entry o)) i) j
        = Coding.sum_entry o i j by rewrite build_entry // subn1.
by rewrite /= E sum_entry_bridge.
Qed.

Theorem entry_bridge_eye m (i j : 'I_m.+1) :
  let M := Coding.build m.+1 m.+1 Coding.eye_entry in
  nth BinNums.Z0 (nth [::] M i) j = Coding.eye_entry i j /\
  ZtoF (nth BinNums.Z0 (nth [::] M i) j) = treat_full F m i j.
Proof. by rewrite /= build_entry // eye_entry_bridge. Qed.

Theorem entry_bridge_sumfull m (o : 'I_m.+1) (i : 'I_m.+1) (j : 'I_(1 + m)) :
  let M := Coding.build m.+1 m.+1 (Coding.sumfull_entry o) in
  nth BinNums.Z0 (nth [::] M i) j = Coding.sumfull_entry o i j /\
  ZtoF (nth BinNums.Z0 (nth [::] M i) j) = sum_full F o i j.
Proof. by rewrite /= build_entry // sumfull_entry_bridge. Qed.

(* nat-indexed version, as in the model: i < n, j < n - 1, r < n *)
Theorem entry_bridge n r i j (rn : (r < n.+1)%N) (ilt : (i < n.+1)%N) (jlt : (j < n)%N) :
  [/\ nth BinNums.Z0 (nth [::] (Coding.build n.+1 (n.+1 - 1) (Coding.treat_entry r)) i) j
        = Coding.treat_entry r i j,
      ZtoF (Coding.treat_entry r i j) = treat F (Ordinal rn) (Ordinal ilt) (Ordinal jlt),
      nth BinNums.Z0 (nth [::] (Coding.build n.+1 (n.+1 - 1) (Coding.sum_entry r)) i) j
        = Coding.sum_entry r i j
    & ZtoF (Coding.sum_entry r i j) = sumc F (Ordinal rn) (Ordinal ilt) (Ordinal jlt)].
Proof.
split; rewrite ?build_entry ?subn1 //.
- exact: (treat_entry_bridge (Ordinal rn) (Ordinal ilt) (Ordinal jlt)).
- exact: (sum_entry_bridge (Ordinal rn) (Ordinal ilt) (Ordinal jlt)).
Qed.

End Bridge.

(* ------------------------------------------------------------------------------------------- *)
(* Examples: three levels over rat; the hypotheses are satisfiable and the statements compute    *)
(* ------------------------------------------------------------------------------------------- *)
Section Examples.
Let Q := [fieldType of rat].
Let r1 : 'I_3 := inord 1.

Example ex_treat_unit : with_const Q r1 \in unitmx.
Proof. exact: treat_unit. Qed.

Example ex_treat_inv : with_const Q r1 *m inv_treat Q r1 = 1%:M.
Proof. exact: treat_inv. Qed.

Example ex_char : 3%:R != 0 :> rat.
Proof. by rewrite pnatr_eq0. Qed.

Example ex_sum_unit : sum_full Q r1 \in unitmx.
Proof. exact: sum_unit ex_char. Qed.

Example ex_sum_inv : sum_full Q r1 *m inv_sum Q r1 = 1%:M.
Proof. exact: sum_inv ex_char. Qed.

Example ex_interchange : ((with_const Q (ord0 : 'I_3))^T :=: (sum_full Q r1)^T)%MS.
Proof. exact: treat_sum_colspace ex_char _ _. Qed.

Example ex_same_rank : \rank (with_const Q (ord0 : 'I_3)) = \rank (sum_full Q r1).
Proof. by rewrite treat_rank sum_rank. Qed.

(* the executable model on 3 levels, reference 1 *)
Example ex_build_treat :
  Coding.build 3 2 (Coding.treat_entry 1)
  = [:: [:: BinNums.Zpos BinNums.xH; BinNums.Z0];
        [:: BinNums.Z0; BinNums.Z0];
        [:: BinNums.Z0; BinNums.Zpos BinNums.xH]].
Proof. by []. Qed.

Example ex_build_sum :
  Coding.build 3 2 (Coding.sum_entry 1)
  = [:: [:: BinNums.Zpos BinNums.xH; BinNums.Z0];
        [:: BinNums.Zneg BinNums.xH; BinNums.Zneg BinNums.xH];
        [:: BinNums.Z0; BinNums.Zpos BinNums.xH]].
Proof. by []. Qed.

Example ex_bridge (i : 'I_3) (j : 'I_2) :
  ZtoF Q (nth BinNums.Z0 (nth [::] (Coding.build 3 (3 - 1) (Coding.treat_entry r1)) i) j)
  = treat Q r1 i j.
Proof. by case: (entry_bridge_treat Q r1 i j). Qed.

(* characteristic 3: the 3-level sum coding with a constant column is singular *)
Example ex_sum_singular_F3 (o : 'I_3) :
  (const_mx 1 : 'rV_3) *m sum_full [fieldType of 'F_3] o = 0.
Proof. by apply: sum_singular_char; rewrite char_Zp. Qed.

End Examples.
