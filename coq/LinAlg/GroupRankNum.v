(* C05, rank layer, NUMERIC effects of a grouping factor:  (x|g) = (1|g) + (x|g),  (0 + x|g),
   (x + z|g), and in general any effect matrix E (n rows, p columns; numeric columns, or any
   columns at all -- nothing below uses where E comes from).

   Setting.  F any field (no order is needed anywhere; the worked examples are over rat),
   n rows, G levels, a grouping map  grp : 'I_n -> 'I_G,  an effect matrix  E : 'M[F]_(n, p).
   The group block of E is the row-wise Kronecker product of the one-hot matrix of grp with E:

       gblock grp E  :  'M[F]_(n, p * G),     gblock i (mxvec_index j l) = [grp i == l] * E i j

   (effect-major column order, the order of the model: the G columns of the first effect column,
   then the G columns of the second, ...; the rank statements do not depend on the order).
   GroupRank.v has no matrix-level definition of a group block (it works with functions on the
   cells of a complete crossing); the link is [onehot_bcol] / [gblock_const1] at the end: the
   column of (1|g) there is the one-hot column here.

   lev grp E l  is E with the rows outside group l zeroed;  gsub grp l E  is the genuine row
   submatrix of E on the rows of group l; they have the same row space ([lev_rowsub]).

   Results (all unconditional unless a hypothesis is displayed):
     rank_gblock              \rank (gblock E) = \sum_l \rank (E on group l)
     gblock_full_rank         full column rank p * G  <->  every E-on-group-l has full column rank p
     gblock_spanP             column space of the block = { v | for every l, v on group l is in the
                              column space of E on group l }   (a separate regression per group)
     group_slope_indep        (0 + x|g): independent  <->  every group has a row with x != 0
     group_int_slope_indep    (1|g) + (x|g): independent  <->  every group has two rows with
                              different x
     common_in_group_span,    the columns of a common effect E are in the span of the group block
     intercept_group_deficient   of E; [1 | onehot g] is rank deficient for EVERY data set. *)
From mathcomp Require Import all_ssreflect all_algebra.
From Verif Require Import Contrast Tensor GroupRank.

Set Implicit Arguments.
Unset Strict Implicit.
Unset Printing Implicit Defensive.

Import GRing.Theory Num.Theory.
Local Open Scope ring_scope.

(* ------------------------------------------------------------------------------------------- *)
(* 0. Column spaces in mxalgebra (which is row-space oriented)                                  *)
(* ------------------------------------------------------------------------------------------- *)
Section ColSpace.
Variable F : fieldType.

(* V is in the column space of M *)
Lemma colspaceP m n k (M : 'M[F]_(m, n)) (V : 'M[F]_(m, k)) :
  reflect (exists C, V = M *m C) (V^T <= M^T)%MS.
Proof.
apply: (iffP submxP) => [[D e] | [C ->]].
  by exists D^T; rewrite -[LHS]trmxK e trmx_mul trmxK.
by exists C^T; rewrite trmx_mul.
Qed.

(* full column rank = the columns are linearly independent = trivial kernel *)
Lemma colfreeP m p (M : 'M[F]_(m, p)) :
  reflect (forall c : 'cV_p, M *m c = 0 -> c = 0) (\rank M == p).
Proof.
rewrite -mxrank_tr -/(row_free M^T) -kermx_eq0.
apply: (iffP eqP) => [K c Mc | H].
  have: (c^T <= kermx M^T)%MS by apply/sub_kermxP; rewrite -trmx_mul Mc trmx0.
  by rewrite K submx0 => /eqP /(congr1 trmx); rewrite trmxK trmx0.
apply/eqP; rewrite -submx0; apply/row_subP => i.
have: row i (kermx M^T) *m M^T = 0 by apply/sub_kermxP; exact: row_sub.
move/(congr1 trmx); rewrite trmx_mul trmxK trmx0 => /H /(congr1 trmx).
by rewrite trmxK trmx0 => ->; rewrite sub0mx.
Qed.

Lemma colfree_row_free m p (M : 'M[F]_(m, p)) : row_free M^T = (\rank M == p).
Proof. by rewrite /row_free mxrank_tr. Qed.

End ColSpace.

(* ------------------------------------------------------------------------------------------- *)
(* 1. The group block and its level slices                                                      *)
(* ------------------------------------------------------------------------------------------- *)
Section GroupBlock.
Variables (F : fieldType) (n G : nat).
Variable grp : 'I_n -> 'I_G.

(* the one-hot (indicator) matrix of the grouping factor: the block of (1|g) *)
Definition onehot : 'M[F]_(n, G) := \matrix_(i, l) (grp i == l)%:R.

(* the rows of group l, as a row-submatrix operator *)
Definition gsub (l : 'I_G) k (M : 'M[F]_(n, k)) : 'M[F]_(#|[pred i | grp i == l]|, k) :=
  rowsub (@enum_val _ [pred i | grp i == l]) M.

Section Effect.
Variable p : nat.
Variable E : 'M[F]_(n, p).

(* the group block: column (j, l) = indicator of level l times effect column j *)
Definition gblock : 'M[F]_(n, p * G) :=
  \matrix_(i, k) mxvec (\matrix_(j, l) ((grp i == l)%:R * E i j)) 0 k.

Lemma gblockE i j l : gblock i (mxvec_index j l) = (grp i == l)%:R * E i j.
Proof. by rewrite mxE mxvecE mxE. Qed.

(* the slice of level l: E with the rows of the other groups zeroed *)
Definition lev (l : 'I_G) : 'M[F]_(n, p) := \matrix_(i, j) ((grp i == l)%:R * E i j).

Lemma col_gblock j l : col (mxvec_index j l) gblock = col j (lev l).
Proof. by apply/colP => i; rewrite !mxE mxvecE mxE. Qed.

Lemma row_gblock_tr j l : row (mxvec_index j l) gblock^T = row j (lev l)^T.
Proof. by apply/rowP => i; rewrite !mxE mxvecE mxE. Qed.

(* the block applied to a coefficient table A (effect j, level l): row i gets the regression
   of its own group, (E *m A) i (grp i) *)
Lemma gblock_mulE (A : 'M[F]_(p, G)) i :
  (gblock *m (mxvec A)^T) i 0 = (E *m A) i (grp i).
Proof.
transitivity (\sum_j \sum_l gblock i (mxvec_index j l) * A j l).
  rewrite mxE (reindex _ (curry_mxvec_bij _ _)) /= pair_bigA.
  by apply: eq_bigr => [[j l]] _ /=; rewrite [in X in _ * X]mxE mxvecE.
rewrite [RHS]mxE; apply: eq_bigr => j _; rewrite (bigD1 (grp i)) //= big1 ?addr0 => [|l ll].
  by rewrite gblockE eqxx mul1r.
by rewrite gblockE eq_sym (negbTE ll) mul0r mul0r.
Qed.

(* zeroed rows do not change the row space: lev l and the genuine row submatrix *)
Lemma lev_rowsub l : (lev l :=: gsub l E)%MS.
Proof.
apply/eqmxP/andP; split; apply/row_subP => i.
  case gl: (grp i == l); last first.
    suff -> : row i (lev l) = 0 by rewrite sub0mx.
    by apply/rowP => j; rewrite !mxE gl mul0r.
  have il : i \in [pred i | grp i == l] by rewrite inE.
  apply: (@eq_row_sub _ _ _ _ _ (enum_rank_in il i)).
  by apply/rowP => j; rewrite !mxE enum_rankK_in // gl mul1r.
apply: (@eq_row_sub _ _ _ _ _ (enum_val i)).
apply/rowP => j; rewrite !mxE.
by have := enum_valP i; rewrite inE => ->; rewrite mul1r.
Qed.

Lemma rank_lev l : \rank (lev l) = \rank (gsub l E).
Proof. by have [-> _] := lev_rowsub l. Qed.

Lemma lev_mulE l k (c : 'M[F]_(p, k)) i j :
  (lev l *m c) i j = (grp i == l)%:R * (E *m c) i j.
Proof. by rewrite !mxE big_distrr; apply: eq_bigr => j' _; rewrite !mxE /= mulrA. Qed.

(* the column space of the block is the sum of the column spaces of the slices *)
Lemma gblock_sum : (gblock^T :=: \sum_l <<(lev l)^T>>)%MS.
Proof.
apply/eqmxP/andP; split.
  apply/row_subP => k; case/mxvec_indexP: k => j l; rewrite row_gblock_tr.
  by apply: submx_trans (row_sub _ _) _; apply: (sumsmx_sup l); rewrite // genmxE.
apply/sumsmx_subP => l _; rewrite genmxE.
by apply/row_subP => j; rewrite -row_gblock_tr; apply: row_sub.
Qed.

(* a vector in the column space of slice l vanishes outside group l *)
Lemma lev_supp l (v : 'rV[F]_n) :
  (v <= (lev l)^T)%MS -> forall i, grp i != l -> v 0 i = 0.
Proof.
move=> /submxP[u ->] i /negbTE gl; rewrite mxE big1 // => j _.
by rewrite !mxE gl mul0r mulr0.
Qed.

(* ... so the sum is direct *)
Lemma lev_direct : mxdirect (\sum_l <<(lev l)^T>>).
Proof.
apply/mxdirect_sumsP => l _; apply/eqP; rewrite -submx0; apply/rV_subP => v.
rewrite sub_capmx genmxE => /andP[vl /sub_sumsmxP[u vs]].
suff -> : v = 0 by rewrite sub0mx.
apply/rowP => i; rewrite [RHS]mxE.
case gl: (grp i == l); last by apply: (lev_supp vl); rewrite gl.
rewrite vs summxE big1 // => l' ll'.
apply: (@lev_supp l'); first by rewrite -(genmxE (lev l')^T); exact: submxMl.
by rewrite (eqP gl) eq_sym.
Qed.

(* ------------------------------------------------------------------------------------------- *)
(* 2. Rank of the block (clause 3)                                                              *)
(* ------------------------------------------------------------------------------------------- *)

(* the rank of the block is the sum over the levels of the rank of E within the group *)
Theorem rank_gblock_lev : \rank gblock = (\sum_l \rank (lev l))%N.
Proof.
rewrite -mxrank_tr gblock_sum.1 (mxdirectP lev_direct) /=.
by apply: eq_bigr => l _; rewrite mxrank_gen mxrank_tr.
Qed.

Theorem rank_gblock : \rank gblock = (\sum_l \rank (gsub l E))%N.
Proof. by rewrite rank_gblock_lev; apply: eq_bigr => l _; rewrite rank_lev. Qed.

(* full column rank of the block <-> full column rank of E within every group *)
Theorem gblock_full_rank_lev : (\rank gblock == (p * G)%N) = [forall l, \rank (lev l) == p].
Proof.
rewrite rank_gblock_lev.
have := leqif_sum (fun (l : 'I_G) (_ : predT l) => leqif_eq (rank_leq_col (lev l))).
by rewrite sum_nat_const card_ord mulnC => H; rewrite (H : (_ <= _ ?= iff _)%N).2.
Qed.

Theorem gblock_full_rank : (\rank gblock == (p * G)%N) = [forall l, \rank (gsub l E) == p].
Proof. by rewrite gblock_full_rank_lev; apply: eq_forallb => l; rewrite rank_lev. Qed.

(* the same with "linearly independent columns" spelled out on both sides *)
Theorem gblock_indepP :
  reflect (forall l (c : 'cV[F]_p), (forall i, grp i = l -> (E *m c) i 0 = 0) -> c = 0)
          (\rank gblock == (p * G)%N).
Proof.
rewrite gblock_full_rank_lev; apply: (iffP forallP) => [H l c Hc | H l].
  apply: (colfreeP _ (H l)); apply/colP => i; rewrite lev_mulE [RHS]mxE.
  by case gl: (grp i == l); rewrite ?mul0r // Hc ?mulr0 //; apply/eqP.
apply/colfreeP => c /colP Hc; apply: (H l) => i gl.
by have := Hc i; rewrite lev_mulE gl eqxx mul1r [RHS]mxE.
Qed.

Corollary gblock_row_free : row_free gblock^T = [forall l, row_free (gsub l E)^T].
Proof.
by rewrite colfree_row_free gblock_full_rank; apply: eq_forallb => l; rewrite colfree_row_free.
Qed.

(* deficiency in one group is never repaired by the others *)
Corollary gblock_deficient l : (\rank (gsub l E) < p)%N -> (\rank gblock < p * G)%N.
Proof.
move=> lt; rewrite ltn_neqAle rank_leq_col andbT gblock_full_rank.
by apply/negP => /forallP/(_ l)/eqP e; rewrite e ltnn in lt.
Qed.

(* a group with fewer rows than effect columns makes the block deficient *)
Corollary gblock_small_group l : (#|[pred i | grp i == l]| < p)%N -> (\rank gblock < p * G)%N.
Proof. by move=> lt; apply: (@gblock_deficient l); apply: leq_ltn_trans (rank_leq_row _) lt. Qed.

(* ------------------------------------------------------------------------------------------- *)
(* 3. Span of the block (clause 4): a separate regression on E within each group                *)
(* ------------------------------------------------------------------------------------------- *)
Theorem gblock_spanP (v : 'cV[F]_n) :
  reflect (forall l, exists c : 'cV[F]_p, forall i, grp i = l -> v i 0 = (E *m c) i 0)
          (v^T <= gblock^T)%MS.
Proof.
apply: (iffP idP) => [|H].
  rewrite gblock_sum => /sub_sumsmxP[u vu] l.
  have /submxP[w uw] : (u l *m <<(lev l)^T>> <= (lev l)^T)%MS.
    by rewrite -(genmxE (lev l)^T) submxMl.
  exists w^T => i gl; have -> : v i 0 = v^T 0 i by rewrite mxE.
  rewrite vu summxE (bigD1 l) //= big1 ?addr0 => [|l' ll'].
    by rewrite uw !mxE; apply: eq_bigr => j _; rewrite !mxE gl eqxx mul1r mulrC.
  apply: (@lev_supp l'); last by rewrite gl eq_sym.
  by rewrite -(genmxE (lev l')^T); exact: submxMl.
have -> : v^T = \sum_l (\row_i ((grp i == l)%:R * v i 0)).
  apply/rowP => i; rewrite summxE mxE (bigD1 (grp i)) //= big1 ?addr0 => [|l ll].
    by rewrite mxE eqxx mul1r.
  by rewrite mxE eq_sym (negbTE ll) mul0r.
apply: summx_sub => l _; have [c Hc] := H l.
rewrite gblock_sum; apply: (sumsmx_sup l) => //; rewrite genmxE.
apply/submxP; exists c^T; apply/rowP => i; rewrite !mxE.
case gl: (grp i == l).
  by rewrite mul1r (Hc i (eqP gl)) mxE; apply: eq_bigr => j _; rewrite !mxE gl mul1r mulrC.
by rewrite mul0r big1 // => j _; rewrite !mxE gl mul0r mulr0.
Qed.

(* the same with genuine row submatrices *)
Lemma gsub_spanP l (v : 'cV[F]_n) :
  reflect (exists c : 'cV[F]_p, forall i, grp i = l -> v i 0 = (E *m c) i 0)
          ((gsub l v)^T <= (gsub l E)^T)%MS.
Proof.
apply: (iffP (colspaceP _ _)) => [[c Hc] | [c Hc]]; exists c.
  move=> i gl; have il : i \in [pred i | grp i == l] by rewrite inE gl.
  move/matrixP/(_ (enum_rank_in il i) 0): Hc; rewrite !mxE enum_rankK_in // => ->.
  by apply: eq_bigr => j _; rewrite !mxE enum_rankK_in.
apply/matrixP => k j; rewrite !mxE ord1 Hc.
  by rewrite mxE; apply: eq_bigr => j' _; rewrite !mxE.
by apply/eqP; have := enum_valP k; rewrite inE.
Qed.

Theorem gblock_span (v : 'cV[F]_n) :
  (v^T <= gblock^T)%MS = [forall l, ((gsub l v)^T <= (gsub l E)^T)%MS].
Proof.
apply/gblock_spanP/forallP => H l; first exact/gsub_spanP.
exact/gsub_spanP.
Qed.

(* dimension of that space, and under the full-rank condition *)
Corollary gblock_span_dim :
  (forall l, \rank (gsub l E) = p) -> \rank gblock = (p * G)%N.
Proof. by move=> H; apply/eqP; rewrite gblock_full_rank; apply/forallP => l; rewrite H. Qed.

(* ------------------------------------------------------------------------------------------- *)
(* 4. A common effect next to its own group effect (clause 5, general form)                     *)
(* ------------------------------------------------------------------------------------------- *)

(* summing the G columns of effect column j gives back column j of E *)
Lemma lev_total : \sum_l lev l = E.
Proof.
apply/matrixP => i j; rewrite summxE (bigD1 (grp i)) //= big1 ?addr0 => [|l ll].
  by rewrite mxE eqxx mul1r.
by rewrite mxE eq_sym (negbTE ll) mul0r.
Qed.

Theorem common_in_group_span : (E^T <= gblock^T)%MS.
Proof.
rewrite -{1}lev_total gblock_sum raddf_sum /=.
by apply: summx_sub => l _; apply: (sumsmx_sup l); rewrite // genmxE.
Qed.

Theorem rank_common_group : \rank (row_mx E gblock) = \rank gblock.
Proof.
rewrite -mxrank_tr tr_row_mx -(addsmxE _ _).1.
by rewrite (addsmx_idPr common_in_group_span).1 mxrank_tr.
Qed.

(* [E | block of (E|g)] is rank deficient as soon as E has a column *)
Corollary common_group_deficient : (0 < p)%N -> (\rank (row_mx E gblock) < p + p * G)%N.
Proof.
move=> p0; rewrite rank_common_group.
by apply: leq_ltn_trans (rank_leq_col _) _; rewrite -[X in (X < _)%N]add0n ltn_add2r.
Qed.

End Effect.

(* ------------------------------------------------------------------------------------------- *)
(* 4b. The column layout does not matter                                                         *)
(* ------------------------------------------------------------------------------------------- *)

(* level-major layout: column (l, j), the order inside ONE term of the model (rows of the
   interaction g:e with the grouping factor first, Proofs/GroupAsCommon.v) *)
Definition gblock_lm p (E : 'M[F]_(n, p)) : 'M[F]_(n, G * p) :=
  \matrix_(i, k) mxvec (\matrix_(l, j) ((grp i == l)%:R * E i j)) 0 k.

Lemma gblock_lmE p (E : 'M[F]_(n, p)) i l j :
  gblock_lm E i (mxvec_index l j) = (grp i == l)%:R * E i j.
Proof. by rewrite mxE mxvecE mxE. Qed.

Lemma gblock_lm_eqmx p (E : 'M[F]_(n, p)) : ((gblock_lm E)^T :=: (gblock E)^T)%MS.
Proof.
apply/eqmxP/andP; split; apply/row_subP => k; case/mxvec_indexP: k => a b.
  apply: (@eq_row_sub _ _ _ _ _ (mxvec_index b a)).
  by apply/rowP => i; rewrite !mxE !mxvecE !mxE.
apply: (@eq_row_sub _ _ _ _ _ (mxvec_index b a)).
by apply/rowP => i; rewrite !mxE !mxvecE !mxE.
Qed.

Lemma rank_gblock_lm p (E : 'M[F]_(n, p)) : \rank (gblock_lm E) = \rank (gblock E).
Proof. by rewrite -mxrank_tr (gblock_lm_eqmx E).1 mxrank_tr. Qed.

(* several terms side by side, [(e1|g) | (e2|g)], against the block of the joint effect
   matrix [e1 | e2] *)
Lemma gblock_row_mx p1 p2 (E1 : 'M[F]_(n, p1)) (E2 : 'M[F]_(n, p2)) :
  ((row_mx (gblock E1) (gblock E2))^T :=: (gblock (row_mx E1 E2))^T)%MS.
Proof.
apply/eqmxP/andP; split; apply/row_subP => k.
  case: (split_ordP k) => k' ->{k}; case/mxvec_indexP: k' => j l.
    apply: (@eq_row_sub _ _ _ _ _ (mxvec_index (lshift p2 j) l)).
    by apply/rowP => i; rewrite 2!mxE gblockE row_mxEl 2!mxE row_mxEl gblockE.
  apply: (@eq_row_sub _ _ _ _ _ (mxvec_index (rshift p1 j) l)).
  by apply/rowP => i; rewrite 2!mxE gblockE row_mxEr 2!mxE row_mxEr gblockE.
case/mxvec_indexP: k => j l; case: (split_ordP j) => j' ->{j}.
  apply: (@eq_row_sub _ _ _ _ _ (lshift _ (mxvec_index j' l))).
  by apply/rowP => i; rewrite 2!mxE row_mxEl gblockE 2!mxE gblockE row_mxEl.
apply: (@eq_row_sub _ _ _ _ _ (rshift _ (mxvec_index j' l))).
by apply/rowP => i; rewrite 2!mxE row_mxEr gblockE 2!mxE gblockE row_mxEr.
Qed.

Lemma rank_gblock_row_mx p1 p2 (E1 : 'M[F]_(n, p1)) (E2 : 'M[F]_(n, p2)) :
  \rank (row_mx (gblock E1) (gblock E2)) = \rank (gblock (row_mx E1 E2)).
Proof. by rewrite -mxrank_tr (gblock_row_mx E1 E2).1 mxrank_tr. Qed.

(* ------------------------------------------------------------------------------------------- *)
(* 5. (0 + x|g)  (clause 2)                                                                      *)
(* ------------------------------------------------------------------------------------------- *)
Section Slope.
Variable x : 'cV[F]_n.

Lemma lev_slope_rank l :
  (\rank (lev x l) == 1%N) = [exists i, (grp i == l) && (x i 0 != 0)].
Proof.
rewrite eqn_leq rank_leq_col lt0n mxrank_eq0 /=.
apply/idP/idP => [|/existsP[i /andP[gl xi]]].
  apply: contraNT; rewrite negb_exists => /forallP H.
  apply/eqP/matrixP => i j; rewrite !mxE ord1.
  have := H i; rewrite negb_and negbK.
  by case: (grp i == l) => /= [/eqP->|_]; rewrite ?mulr0 ?mul0r.
apply/eqP => /matrixP/(_ i 0); rewrite !mxE gl mul1r => /eqP.
by rewrite (negbTE xi).
Qed.

(* the G columns of (0 + x|g) are independent iff every group has a row with x != 0 *)
Theorem group_slope_indep :
  (\rank (gblock x) == (1 * G)%N) = [forall l, exists i, (grp i == l) && (x i 0 != 0)].
Proof. by rewrite gblock_full_rank_lev; apply: eq_forallb => l; rewrite lev_slope_rank. Qed.

Theorem group_slope_indepP :
  reflect (forall l, exists i, grp i = l /\ x i 0 != 0) (\rank (gblock x) == (1 * G)%N).
Proof.
rewrite group_slope_indep; apply: (iffP forallP) => H l.
  by have /existsP[i /andP[/eqP gl xi]] := H l; exists i.
by have [i [gl xi]] := H l; apply/existsP; exists i; rewrite gl eqxx.
Qed.

End Slope.

(* ------------------------------------------------------------------------------------------- *)
(* 6. (x|g) = (1|g) + (x|g)  (clause 1)                                                          *)
(* ------------------------------------------------------------------------------------------- *)
Section InterceptSlope.
Variable x : 'cV[F]_n.

(* the effect matrix [1, x] *)
Definition int_slope : 'M[F]_(n, 1 + 1) := row_mx (const_mx 1) x.

Lemma int_slope_mulE (a b : F) i :
  (int_slope *m col_mx (const_mx a : 'M_1) (const_mx b : 'M_1)) i 0 = a + x i 0 * b.
Proof. by rewrite mul_row_col mxE !mxE !big_ord1 !mxE mul1r. Qed.

Lemma cV2E (c : 'cV[F]_(1 + 1)) :
  c = col_mx (const_mx (c (lshift 1 0) 0) : 'M_1) (const_mx (c (rshift 1 0) 0) : 'M_1).
Proof.
rewrite -[LHS]vsubmxK; congr col_mx; apply/matrixP => i j; rewrite !mxE !ord1;
  by congr (c _ _); apply: val_inj.
Qed.

Lemma lev_int_slope_rank l :
  (\rank (lev int_slope l) == 2%N) =
  [exists i, exists i', [&& grp i == l, grp i' == l & x i 0 != x i' 0]].
Proof.
apply/idP/idP => [|/existsP[i /existsP[i' /and3P[gl gl' xx]]]].
  apply: contraTT; rewrite negb_exists => /forallP H.
  pose c0 : F := if [pick i | grp i == l] is Some i0 then x i0 0 else 0.
  apply/negP => /colfreeP/(_ (col_mx (const_mx c0 : 'M_1) (const_mx (-1) : 'M_1))) K.
  have /(congr1 (fun m : 'cV_(1 + 1) => m (rshift 1 0) 0)) :
      col_mx (const_mx c0 : 'M[F]_1) (const_mx (-1) : 'M_1) = 0.
    apply: K; apply/colP => i; rewrite lev_mulE int_slope_mulE [RHS]mxE.
    case gl: (grp i == l); rewrite ?mul0r // mul1r mulrN1 /c0.
    case: pickP => [i0 gl0 | /(_ i)]; last by rewrite gl.
    have := H i0; rewrite negb_exists => /forallP/(_ i).
    by rewrite gl0 gl /= negbK => /eqP->; rewrite subrr.
  by rewrite col_mxEd !mxE => /eqP; rewrite oppr_eq0 oner_eq0.
apply/colfreeP => c; rewrite (cV2E c).
set a := c _ _; set b := c _ _ => /colP K.
have := K i; rewrite lev_mulE int_slope_mulE gl mul1r [RHS]mxE => e.
have := K i'; rewrite lev_mulE int_slope_mulE gl' mul1r [RHS]mxE => e'.
have : a + x i 0 * b - (a + x i' 0 * b) = 0 by rewrite e e' subrr.
rewrite opprD addrACA subrr add0r -mulrBl.
move/eqP; rewrite mulf_eq0 subr_eq0 (negbTE xx) /= => /eqP b0.
move: e; rewrite b0 mulr0 addr0 => ->.
by apply/colP => k; rewrite !mxE; case: split => k'; rewrite mxE.
Qed.

(* the 2G columns of (1|g) + (x|g) are independent iff x is not constant within any group
   (so in particular every group has at least two rows) *)
Theorem group_int_slope_indep :
  (\rank (gblock int_slope) == ((1 + 1) * G)%N) =
  [forall l, exists i, exists i', [&& grp i == l, grp i' == l & x i 0 != x i' 0]].
Proof. by rewrite gblock_full_rank_lev; apply: eq_forallb => l; rewrite lev_int_slope_rank. Qed.

Theorem group_int_slope_indepP :
  reflect (forall l, exists i i', [/\ grp i = l, grp i' = l & x i 0 != x i' 0])
          (\rank (gblock int_slope) == ((1 + 1) * G)%N).
Proof.
rewrite group_int_slope_indep; apply: (iffP forallP) => H l.
  by have /existsP[i /existsP[i' /and3P[/eqP gl /eqP gl' xx]]] := H l; exists i, i'.
have [i [i' [gl gl' xx]]] := H l; apply/existsP; exists i; apply/existsP; exists i'.
by rewrite gl gl' !eqxx.
Qed.

Corollary group_int_slope_two_rows :
  \rank (gblock int_slope) == ((1 + 1) * G)%N -> forall l, (1 < #|[pred i | grp i == l]|)%N.
Proof.
move/group_int_slope_indepP => H l; have [i [i' [gl gl' xx]]] := H l.
rewrite (cardD1 i) inE gl eqxx (cardD1 i') !inE gl' eqxx andbT.
by case: (altP (i' =P i)) xx => [->|]; rewrite ?eqxx.
Qed.

End InterceptSlope.

(* ------------------------------------------------------------------------------------------- *)
(* 7. (x + z|g) = (1|g) + (x|g) + (z|g): an instance of the general theorem                      *)
(* ------------------------------------------------------------------------------------------- *)
Corollary group_two_slopes_indep (x z : 'cV[F]_n) :
  let E := row_mx (const_mx 1 : 'cV[F]_n) (row_mx x z) in
  (\rank (gblock E) == ((1 + (1 + 1)) * G)%N) = [forall l, \rank (gsub l E) == 3%N].
Proof. exact: gblock_full_rank. Qed.

(* proportional covariates within one group: deficient *)
Corollary group_two_slopes_collinear (x z : 'cV[F]_n) (l : 'I_G) (a : F) :
  (forall i, grp i = l -> z i 0 = a * x i 0) ->
  (\rank (gblock (row_mx (const_mx 1%R : 'cV[F]_n) (row_mx x z))) < (1 + (1 + 1)) * G)%N.
Proof.
move=> H; rewrite ltn_neqAle rank_leq_col andbT.
apply/negP => /gblock_indepP/(_ l) K.
pose c : 'cV[F]_(1 + (1 + 1)) :=
  col_mx (0 : 'M_1) (col_mx (const_mx a : 'M_1) (const_mx (-1) : 'M_1)).
have /(congr1 (fun m : 'cV_(1 + (1 + 1)) => m (rshift 1 (rshift 1 0)) 0)) : c = 0.
  apply: K => i gl; rewrite /c !mul_row_col mulmx0 add0r mxE.
  by rewrite !mxE !big_ord1 !mxE (H i gl) mulrN1 mulrC subrr.
by rewrite /c !col_mxEd !mxE => /eqP; rewrite oppr_eq0 oner_eq0.
Qed.

(* ------------------------------------------------------------------------------------------- *)
(* 8. Common intercept next to (1|g)  (clause 5)                                                *)
(* ------------------------------------------------------------------------------------------- *)

(* the sum of the group columns is the intercept column *)
Lemma onehot_rowsum : onehot *m const_mx 1 = (const_mx 1 : 'cV[F]_n).
Proof.
apply/colP => i; rewrite !mxE (bigD1 (grp i)) //= big1 ?addr0 => [|l ll].
  by rewrite !mxE eqxx mul1r.
by rewrite !mxE eq_sym (negbTE ll) mul0r.
Qed.

Lemma gblock_const1 i l : gblock (const_mx 1 : 'cV[F]_n) i (mxvec_index 0 l) = onehot i l.
Proof. by rewrite gblockE !mxE mulr1. Qed.

Lemma onehot_gblock : (onehot^T :=: (gblock (const_mx 1 : 'cV[F]_n))^T)%MS.
Proof.
apply/eqmxP/andP; split; apply/row_subP.
  move=> l; apply: (@eq_row_sub _ _ _ _ _ (mxvec_index 0 l)).
  by apply/rowP => i; rewrite !mxE mxvecE !mxE mulr1.
move=> k; case/mxvec_indexP: k => j l; apply: (@eq_row_sub _ _ _ _ _ l).
by apply/rowP => i; rewrite !mxE mxvecE !mxE mulr1.
Qed.

(* the two terms (1|g) and (x|g) side by side, as the model lays them out *)
Lemma rank_int_slope_terms (x : 'cV[F]_n) :
  \rank (row_mx onehot (gblock x)) = \rank (gblock (int_slope x)).
Proof.
rewrite -rank_gblock_row_mx -!(mxrank_tr (row_mx _ _)) !tr_row_mx -!(addsmxE _ _).1.
exact: (adds_eqmx onehot_gblock (eqmx_refl _)).1.
Qed.

Theorem group_int_slope_terms_indep (x : 'cV[F]_n) :
  (\rank (row_mx onehot (gblock x)) == ((1 + 1) * G)%N) =
  [forall l, exists i, exists i', [&& grp i == l, grp i' == l & x i 0 != x i' 0]].
Proof. by rewrite rank_int_slope_terms group_int_slope_indep. Qed.

(* (1|g) alone always has independent columns when every level occurs *)
Theorem rank_onehot : \rank onehot = #|[pred l | [exists i, grp i == l]]|.
Proof.
rewrite -mxrank_tr onehot_gblock.1 mxrank_tr rank_gblock_lev.
rewrite -sum1_card [RHS]big_mkcond /=; apply: eq_bigr => l _.
have := lev_slope_rank (const_mx 1) l.
have -> : [exists i, (grp i == l) && ((const_mx 1 : 'cV[F]_n) i 0 != 0)] = [exists i, grp i == l].
  by apply: eq_existsb => i; rewrite mxE oner_eq0 andbT.
rewrite inE; case: ifP => [_ /eqP-> // | _ /negbT].
have := rank_leq_col (lev (const_mx 1 : 'cV[F]_n) l).
by case: (\rank _) => [|[|r]].
Qed.

(* [1 | onehot g] is rank deficient for every data set (if G = 0 there are no rows) *)
Theorem intercept_group_deficient :
  (\rank (row_mx (const_mx 1%R : 'cV[F]_n) onehot) < 1 + G)%N.
Proof.
rewrite ltn_neqAle rank_leq_col andbT.
apply/negP => /colfreeP/(_ (col_mx (const_mx 1 : 'M_1) (const_mx (-1)))) K.
have /(congr1 (fun m : 'cV_(1 + G) => m (lshift G 0) 0)) :
    col_mx (const_mx 1 : 'M[F]_1) (const_mx (-1) : 'cV_G) = 0.
  apply: K; rewrite mul_row_col.
  have -> : (const_mx (-1) : 'cV[F]_G) = - const_mx 1 by apply/colP => l; rewrite !mxE.
  rewrite mulmxN onehot_rowsum; apply/colP => i.
  by rewrite !mxE big_ord1 !mxE mul1r subrr.
by rewrite col_mxEu !mxE => /eqP; rewrite oner_eq0.
Qed.

Corollary intercept_group_rank :
  \rank (row_mx (const_mx 1 : 'cV[F]_n) onehot) = \rank onehot.
Proof.
rewrite -mxrank_tr tr_row_mx -(addsmxE _ _).1.
suff H : ((const_mx 1 : 'cV[F]_n)^T <= onehot^T)%MS.
  by rewrite (addsmx_idPr H).1 mxrank_tr.
by apply/colspaceP; exists (const_mx 1); rewrite onehot_rowsum.
Qed.

End GroupBlock.

(* ------------------------------------------------------------------------------------------- *)
(* 9. Link with GroupRank.v: the column of (1|g) on observed cells is the one-hot column        *)
(* ------------------------------------------------------------------------------------------- *)
Section Link.
Variables (F : fieldType) (I : finType) (nl : I -> nat).
Variable C : forall f : I, 'M[F]_((nl f).+1, nl f).
Variables (g : I) (n : nat).
Variable obs : 'I_n -> {dffun forall f : I, 'I_(nl f).+1}.

Lemma onehot_bcol q i :
  bcol C (c_int [set g]) q (obs i) = onehot F (fun i => obs i g) i (q g).
Proof. by rewrite bcol_group_int big_set1 mxE. Qed.

End Link.

(* ------------------------------------------------------------------------------------------- *)
(* 10. A 6-row, 2-group instance over rat                                                       *)
(* ------------------------------------------------------------------------------------------- *)
Section Example.
Let Q := [fieldType of rat].

(* rows 0 1 2 in group 0, rows 3 4 5 in group 1 *)
Definition grp6 (i : 'I_6) : 'I_2 := if (i < 3)%N then ord0 else ord_max.
(* x = 0 1 2 3 4 5 *)
Definition x6 : 'cV[Q]_6 := \col_i (i : nat)%:R.
(* z = 1 1 1 3 4 5: constant on group 0 *)
Definition z6 : 'cV[Q]_6 := \col_i (if (i < 3)%N then 1 else (i : nat)%:R).
(* w = 0 0 0 3 4 5: zero on group 0 *)
Definition w6 : 'cV[Q]_6 := \col_i (if (i < 3)%N then 0 else (i : nat)%:R).

Let o (k : nat) (lt : (k < 6)%N) : 'I_6 := Ordinal lt.

(* y ~ (x|g): four independent columns *)
Example ex6_int_slope : \rank (gblock grp6 (int_slope x6)) = 4%N.
Proof.
apply/eqP/group_int_slope_indepP => l.
case: l => [[|[|l]] lt] //.
  exists (@o 0 isT), (@o 1 isT); split; try exact: val_inj.
  by rewrite !mxE /= ?eqr_nat.
exists (@o 3 isT), (@o 4 isT); split; try exact: val_inj.
by rewrite !mxE /= ?eqr_nat.
Qed.

(* y ~ (z|g) with z constant on group 0: deficient *)
Example ex6_int_slope_constant : (\rank (gblock grp6 (int_slope z6)) < 4)%N.
Proof.
rewrite ltn_neqAle rank_leq_col andbT; apply/negP => /group_int_slope_indepP/(_ ord0).
case=> i [i' [gi gi']]; rewrite !mxE.
have li : (i < 3)%N by move: gi; rewrite /grp6; case: ifP.
have li' : (i' < 3)%N by move: gi'; rewrite /grp6; case: ifP.
by rewrite li li' eqxx.
Qed.

(* y ~ (0 + x|g): two independent columns (x != 0 somewhere in each group) *)
Example ex6_slope : \rank (gblock grp6 x6) = 2%N.
Proof.
apply/eqP/group_slope_indepP => l.
case: l => [[|[|l]] lt] //.
  by exists (@o 1 isT); split; [exact: val_inj | rewrite !mxE /= ?oner_eq0].
exists (@o 3 isT); split; first exact: val_inj.
by rewrite !mxE /= ?(eqr_nat _ 3 0).
Qed.

(* y ~ (0 + w|g) with w = 0 on group 0: deficient *)
Example ex6_slope_zero : (\rank (gblock grp6 w6) < 2)%N.
Proof.
rewrite ltn_neqAle rank_leq_col andbT; apply/negP => /group_slope_indepP/(_ ord0).
case=> i [gi]; rewrite !mxE.
have -> : (i < 3)%N by move: gi; rewrite /grp6; case: ifP.
by rewrite eqxx.
Qed.

(* y ~ 1 + (1|g): deficient *)
Example ex6_intercept_group :
  (\rank (row_mx (const_mx 1%R : 'cV[Q]_6) (onehot Q grp6)) < 3)%N.
Proof. exact: intercept_group_deficient. Qed.

End Example.

Print Assumptions colspaceP.
Print Assumptions colfreeP.
Print Assumptions gblock_mulE.
Print Assumptions lev_rowsub.
Print Assumptions rank_gblock.
Print Assumptions gblock_full_rank.
Print Assumptions gblock_indepP.
Print Assumptions gblock_row_free.
Print Assumptions gblock_small_group.
Print Assumptions gblock_spanP.
Print Assumptions gblock_span.
Print Assumptions gblock_span_dim.
Print Assumptions common_in_group_span.
Print Assumptions rank_common_group.
Print Assumptions common_group_deficient.
Print Assumptions group_slope_indep.
Print Assumptions group_slope_indepP.
Print Assumptions group_int_slope_indep.
Print Assumptions group_int_slope_indepP.
Print Assumptions group_int_slope_two_rows.
Print Assumptions group_two_slopes_indep.
Print Assumptions group_two_slopes_collinear.
Print Assumptions rank_gblock_lm.
Print Assumptions rank_gblock_row_mx.
Print Assumptions group_int_slope_terms_indep.
Print Assumptions rank_onehot.
Print Assumptions intercept_group_deficient.
Print Assumptions intercept_group_rank.
Print Assumptions onehot_bcol.
Print Assumptions ex6_int_slope.
Print Assumptions ex6_int_slope_constant.
Print Assumptions ex6_slope.
Print Assumptions ex6_slope_zero.
Print Assumptions ex6_intercept_group.
