(* End to end: the codings returned by pick_contrasts (Model/Contrasts.v), read as codings of
   LinAlg/Tensor.v, give a design on complete-factorial data whose columns are linearly
   independent and span the model space of the terms.

   The list model names factors by strings; here the factors of the data are a finite type I
   with an injective naming  name : I -> string, and every factor mentioned by the terms of the
   group is assumed to be one of them.  The combinatorial input is exactly
   ContrastsPartition.pick_contrasts_partition; the linear algebra is Tensor.tensor_bridge.

   stdlib modules are required, never imported: all stdlib identifiers are qualified. *)
From Coq Require List String.
From Verif Require Base Contrasts ContrastsPartition.
From Verif Require Import Contrast Tensor.
From mathcomp Require Import all_ssreflect all_algebra.

Set Implicit Arguments.
Unset Strict Implicit.
Unset Printing Implicit Defensive.

Import GRing.Theory.
Local Open Scope ring_scope.

Module CP := ContrastsPartition.

(* stdlib membership vs ssreflect membership *)
Lemma InE (T : eqType) (x : T) (s : seq T) : List.In x s <-> x \in s.
Proof.
elim: s => [|y s IH] //=; rewrite inE; split.
  by case=> [-> | /IH ->]; rewrite ?eqxx ?orbT.
by case/orP => [/eqP -> | /IH]; [left | right].
Qed.

(* every coding of the result of a group is duplicate-free *)
Lemma terms_spec_wf prev group new :
  CP.terms_spec prev group new -> List.Forall CP.wf (CP.all_codings new).
Proof.
elim: group prev new => [|[nm comps] g IH] prev [|[nm' cod] r] //=.
  by move=> _; apply: List.Forall_nil.
case=> _ [Hw [_ [_ H]]]; rewrite /CP.all_codings /=.
by apply/List.Forall_app; split => //; apply: IH H.
Qed.

Section Pick.
Variables (I : finType) (name : I -> String.string).
Hypothesis name_inj : injective name.

(* from the list model to finite sets *)
Definition set_of (S : list Contrasts.factor) : {set I} := [set f | CP.fmem (name f) S].

Definition coding_of (s : Contrasts.subterm) : coding I :=
  ([set f | Contrasts.ef_mem (name f, false) s], [set f | Contrasts.ef_mem (name f, true) s]).

(* and back *)
Definition names (S : {set I}) : list Contrasts.factor := [seq name f | f <- enum S].

(* all factors of a coding are factors of the data *)
Definition named (s : Contrasts.subterm) :=
  forall f b, List.In (f, b) s -> exists i, f = name i.

Lemma mem_set_of f S : (f \in set_of S) <-> List.In (name f) S.
Proof. by rewrite inE; apply: CP.fmem_In. Qed.

Lemma mem_coding_of f b s :
  (f \in (if b then (coding_of s).2 else (coding_of s).1)) <-> List.In (name f, b) s.
Proof. by case: b; rewrite inE; apply: CP.ef_mem_In. Qed.

Lemma mem_names f S : List.In (name f) (names S) <-> f \in S.
Proof.
rewrite /names; split => [/List.in_map_iff[i [/name_inj -> /InE]] | fS].
  by rewrite mem_enum.
by apply/List.in_map_iff; exists f; split => //; apply/InE; rewrite mem_enum.
Qed.

Lemma In_names g S : List.In g (names S) -> exists2 f, g = name f & f \in S.
Proof.
by case/List.in_map_iff => f [<- /InE]; rewrite mem_enum => fS; exists f.
Qed.

(* the interval of the list model is the interval of Tensor.v *)
Lemma inI_ivl s S : named s -> CP.inI s (names S) = (S \in ivl (coding_of s)).
Proof.
move=> nm; apply/idP/idP => [/CP.inI_iff[H1 H2] | ].
  rewrite inE; apply/andP; split; apply/subsetP => f.
    move/(mem_coding_of f false s)/H1 => [] // /mem_names; exact.
  move/mem_names/H2 => [[] /mem_coding_of /= fs]; rewrite inE fs ?orbT //.
rewrite inE => /andP[/subsetP s1 /subsetP s2]; apply/CP.inI_iff; split.
  move=> f [] fs; [by left | right].
  have [i fi] := nm _ _ fs; rewrite fi in fs *.
  by apply/mem_names/s1; apply/(mem_coding_of i false s).
move=> g /In_names[f -> /s2]; rewrite inE => /orP[fs | fs].
  by exists false; apply/(mem_coding_of f false s).
by exists true; apply/(mem_coding_of f true s).
Qed.

Lemma wf_coding_of s : CP.wf s -> wf_coding (coding_of s).
Proof.
move=> wfs; rewrite /wf_coding -setI_eq0; apply/eqP/setP => f; rewrite inE [RHS]inE.
apply/negP => /andP[/(mem_coding_of f false s) f0 /(mem_coding_of f true s) f1].
by have := CP.wf_fun _ _ _ _ wfs f0 f1.
Qed.

Lemma all_wf_coding_of (L : list Contrasts.subterm) :
  List.Forall CP.wf L -> all (@wf_coding I) [seq coding_of s | s <- L].
Proof.
elim: L => [|s L IH] //= H.
have [ws wL] : CP.wf s /\ List.Forall CP.wf L by inversion H.
by rewrite wf_coding_of // IH.
Qed.

Lemma subsetb_set_of S T : CP.subsetb (names S) T = (S \subset set_of T).
Proof.
apply/idP/idP => [/CP.subsetb_incl inc | /subsetP sub].
  by apply/subsetP => f /mem_names/inc/mem_set_of.
by apply/CP.subsetb_incl => g /In_names[f -> /sub /mem_set_of].
Qed.

Lemma existsb_closure S (ts : list (list Contrasts.factor)) :
  List.existsb (CP.subsetb (names S)) ts = (S \in down_closure [seq set_of T | T <- ts]).
Proof.
rewrite inE; elim: ts => [|T ts IH] //=.
by rewrite subsetb_set_of IH.
Qed.

Lemma cnt_count (L : list Contrasts.subterm) S :
  List.Forall named L ->
  CP.cnt L (names S) = count (fun c => S \in ivl c) [seq coding_of s | s <- L].
Proof.
elim: L => [|s L IH] // H; have [nm HL] : named s /\ List.Forall named L.
  by inversion H.
by rewrite CP.cnt_cons /= inI_ivl // IH //; case: (_ \in _).
Qed.

Variables (F : fieldType) (n : I -> nat) (C : forall f : I, 'M[F]_((n f).+1, n f)).
Hypothesis C_valid : valid_contrasts C.

Theorem pick_contrasts_full_rank (group : list (String.string * list Contrasts.factor)) :
  List.NoDup (List.map fst group) ->
  List.Forall (fun g => List.NoDup (snd g)) group ->
  (forall g f, List.In g group -> List.In f (snd g) -> exists i, f = name i) ->
  exists result,
    Contrasts.pick_contrasts group = Base.Ok result /\
    let cs := [seq coding_of s | s <- CP.all_codings result] in
    let ts := [seq set_of (snd g) | g <- group] in
    [/\ free (design C cs),
        (<<design C cs>> = M C (down_closure ts))%VS,
        (<<design C cs>> = \sum_(T <- ts) <<block C (set0, T)>>)%VS
      & \rank (design_mx C cs) = size (design C cs)].
Proof.
move=> Hnames Hnd Hnamed.
have [result [Hres [_ [Hspec [Hcnt _]]]]] := CP.pick_contrasts_partition group Hnames Hnd.
exists result; split => //=.
set L := CP.all_codings result.
(* every coding only mentions factors of the data *)
have nmL : List.Forall named L.
  apply/List.Forall_forall => s sL f b fs.
  have := CP.cnt_In s L (List.map fst s) sL; rewrite CP.inI_top Hcnt /=.
  case E: (List.existsb _ _); last by move=> H; inversion H.
  move=> _; have /List.existsb_exists[T [/List.in_map_iff[g [<- gG]] /CP.subsetb_incl inc]] := E.
  apply: (Hnamed g f gG); apply: inc; apply/List.in_map_iff.
  by exists (f, b).
have wfL : all (@wf_coding I) [seq coding_of s | s <- L].
  exact/all_wf_coding_of/(terms_spec_wf Hspec).
have part : partitions [seq coding_of s | s <- L]
              (down_closure [seq set_of (snd g) | g <- group]).
  move=> S; rewrite -cnt_count // Hcnt.
  have -> : [seq set_of (snd g) | g <- group] = [seq set_of T | T <- List.map snd group].
    by rewrite -map_comp.
  by rewrite existsb_closure; case: (_ \in _).
have [fr sp] := tensor_bridge C_valid wfL part.
split=> //; first by rewrite sp terms_span.
exact: design_mx_rank part.
Qed.

End Pick.

(* the hypotheses are satisfiable: y ~ 1 + a + a:b with a (2 levels) and b (3 levels) *)
Module PickExample.
Import String.
Section PickExample.
Let Q := [fieldType of rat].
Let nm (f : bool) : String.string := (if f then "b" else "a")%string.
Let nlev (f : bool) : nat := (if f then 2 else 1)%N.
Let grp : list (String.string * list Contrasts.factor) :=
  [:: ("Intercept", [::]); ("a", [:: "a"]); ("a:b", [:: "a"; "b"])]%string.

Example ex_pick_result :
  Contrasts.pick_contrasts grp =
  Base.Ok [:: ("Intercept", [:: [::]]); ("a", [:: [:: ("a", false)]]);
              ("a:b", [:: [:: ("b", false); ("a", true)]])]%string.
Proof. by vm_compute. Qed.

Example ex_pick :
  exists result,
    Contrasts.pick_contrasts grp = Base.Ok result /\
    let cs := [seq coding_of nm s | s <- CP.all_codings result] in
    free (design (fun f : bool => treat Q (ord0 : 'I_(nlev f).+1)) cs) /\
    \rank (design_mx (fun f : bool => treat Q (ord0 : 'I_(nlev f).+1)) cs)
      = size (design (fun f : bool => treat Q (ord0 : 'I_(nlev f).+1)) cs).
Proof.
have nm_inj : injective nm by case; case.
have [] := @pick_contrasts_full_rank _ nm nm_inj Q nlev _
             (@treat_valid Q _ nlev (fun=> ord0)) grp.
- by repeat (constructor; simpl; try intuition discriminate).
- by repeat (constructor; simpl; try intuition discriminate).
- move=> g f /= [<- | [<- | [<- | []]]] //=.
    by case=> [<- | []]; exists false.
  by case=> [<- | [<- | []]]; [exists false | exists true].
by move=> result [Hres [fr _ _ rk]]; exists result.
Qed.

End PickExample.
End PickExample.

Print Assumptions pick_contrasts_full_rank.
Print Assumptions PickExample.ex_pick.
