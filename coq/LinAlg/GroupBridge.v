(* C05, BRIDGE between the list model and the MathComp rank theorems of GroupRankNum.v.

   The cells of the model are [option Qc] (None = NaN).  QcField.v makes Qc a MathComp fieldType
   on its own operations, so the translation needs no value map:

     cval c                      the value of a cell (0 for NaN; never used on NaN below)
     mx_of_rows n m rows         the n x m matrix over Qc of the cells of a list of rows
     M_of n G p dg               = mx_of_rows n (G * p) (dg_rows dg)   the block of the built term
     E_of n p dg                 = mx_of_rows n p (rows of the effect expression of dg)
     grp_of seen i               the group number gidx (dg_groups dg) d i  as an 'I_G

   Hypotheses (Proofs/GroupEntry.v): [treatment_gterm nrows tg flag dg d] -- dg is the result of
   [set_data_gterm] for a term whose grouping factor is one Treatment-coded categoric component, d
   the column of group labels; [clean_block (dg_rows dg) n (G * p)] -- the first n rows are G * p
   wide and hold no NaN; [seen] -- the label of every one of these observations is a group
   (automatic unless levels were declared that omit it).

     gterm_bridge              M_of dg = gblock_lm grp (E_of dg)            (the model's layout)
     gterm_rank                \rank (M_of dg) = \sum_l \rank (E_of dg on group l)
     gterm_full_rank           full column rank <-> E_of dg has full column rank in every group
     gterm_spanP               the column space: one regression on E per group
     gterm_slope_indep         (0 + x|g): independent <-> x != 0 somewhere in every group,
     gterm_slope_indep_model   ... with the condition read off the cells of the model
     gterm_int_slope_indep     [(1|g) | (x|g)], two built terms side by side: independent
     gterm_int_slope_indep_model    <-> x is not constant within any group
     ex_bridge_rank            y ~ x + (x|g) on six rows, two groups: the model is run, and the
                               2 + 2 group-specific columns have rank 4

   Also [gblock_lm_entrywise] (any matrix whose entries satisfy the entrywise equation IS
   gblock_lm) and [mxvec_index_val] (the column number of (l, j) is l * p + j). *)
From Coq Require List String ZArith QArith Qcanon.
From Verif Require Base Coding Frame Design DesignCoding GroupEntry.
From mathcomp Require Import all_ssreflect all_algebra.
From Verif Require Import Contrast Tensor GroupRank GroupRankNum QcField.

Set Implicit Arguments.
Unset Strict Implicit.
Unset Printing Implicit Defensive.

Import GRing.Theory.
Local Open Scope ring_scope.

Notation Qc := Qcanon.Qc.

(* ------------------------------------------------------------------------------------------- *)
(* 0. Column numbers                                                                             *)
(* ------------------------------------------------------------------------------------------- *)
Lemma nth_allpairs_flat (S T R : Type) (f : S -> T -> R) (s : seq S) (t : seq T) x0 y0 z0 i j :
  (i < size s)%N -> (j < size t)%N ->
  nth z0 [seq f x y | x <- s, y <- t] (i * size t + j) = f (nth x0 s i) (nth y0 t j).
Proof.
elim: s i => [|x s IH] [|i] //= ilt jlt.
  by rewrite mul0n add0n nth_cat size_map jlt (nth_map y0).
rewrite nth_cat size_map mulSn -addnA ltnNge leq_addr /= addKn; exact: IH.
Qed.

(* the column of (l, j) in an m x n table laid out row by row is number l * n + j *)
Lemma mxvec_index_val m n (i : 'I_m) (j : 'I_n) : (mxvec_index i j : nat) = (i * n + j)%N.
Proof.
have lt : (i * n + j < #|{: 'I_m * 'I_n}|)%N.
  rewrite card_prod !card_ord.
  by apply: leq_trans (leq_mul (ltn_ord i) (leqnn n)); rewrite mulSn [(n + _)%N]addnC ltn_add2l.
rewrite /mxvec_index /=; suff -> : enum_rank (i, j) = Ordinal lt by [].
apply: enum_val_inj; rewrite enum_rankK (enum_val_nth (i, j)) /=.
rewrite enumT unlock /= /prod_enum.
have H := @nth_allpairs_flat _ _ _ (@pair _ _) (enum 'I_m) (enum 'I_n) i j (i, j) i j.
by rewrite !size_enum_ord in H; rewrite H ?ltn_ord // !nth_ord_enum.
Qed.

(* ------------------------------------------------------------------------------------------- *)
(* 1. The entrywise characterisation of the level-major group block                              *)
(* ------------------------------------------------------------------------------------------- *)
Section Entrywise.
Variables (F : fieldType) (n G p : nat) (grp : 'I_n -> 'I_G) (E : 'M[F]_(n, p)).

Lemma gblock_lm_if i l j : gblock_lm grp E i (mxvec_index l j) = if grp i == l then E i j else 0.
Proof. by rewrite gblock_lmE; case: (grp i == l); rewrite ?mul1r ?mul0r. Qed.

(* any matrix with these entries is the block *)
Lemma gblock_lm_entrywise (M : 'M[F]_(n, G * p)) :
  (forall i l j, M i (mxvec_index l j) = if grp i == l then E i j else 0) -> M = gblock_lm grp E.
Proof.
by move=> H; apply/matrixP => i k; case/mxvec_indexP: k => l j; rewrite H gblock_lm_if.
Qed.

(* the same with the columns numbered l * p + j *)
Lemma gblock_lm_entrywise_nat (M : 'M[F]_(n, G * p)) :
  (forall i (k : 'I_(G * p)) (l : 'I_G) (j : 'I_p), k = (l * p + j)%N :> nat ->
     M i k = if grp i == l then E i j else 0) ->
  M = gblock_lm grp E.
Proof. by move=> H; apply: gblock_lm_entrywise => i l j; apply: H; rewrite mxvec_index_val. Qed.

End Entrywise.

(* ------------------------------------------------------------------------------------------- *)
(* 2. From lists of cells to matrices over Qc                                                    *)
(* ------------------------------------------------------------------------------------------- *)
Definition cval (c : Frame.cell) : Qc := if c is Some q then q else 0.

Definition mx_of_rows (n m : nat) (rows : list (list Frame.cell)) : 'M[Qc]_(n, m) :=
  \matrix_(i, k) cval (List.nth k (List.nth i rows nil) None).

Definition M_of (n G p : nat) (dg : Design.dgterm) : 'M[Qc]_(n, G * p) :=
  mx_of_rows n (G * p) (Design.dg_rows dg).

Definition E_of (n p : nat) (dg : Design.dgterm) : 'M[Qc]_(n, p) :=
  mx_of_rows n p (Design.dt_rows (Design.dg_expr dg)).

Lemma M_ofE n G p dg (i : 'I_n) (k : 'I_(G * p)) : M_of n G p dg i k = cval (GroupEntry.gcell dg i k).
Proof. by rewrite mxE. Qed.

Lemma E_ofE n p dg (i : 'I_n) (j : 'I_p) : E_of n p dg i j = cval (GroupEntry.ecell dg i j).
Proof. by rewrite mxE. Qed.

(* ------------------------------------------------------------------------------------------- *)
(* 3. The bridge                                                                                 *)
(* ------------------------------------------------------------------------------------------- *)
Section Bridge.
Variables (nrows : nat) (tg : Design.tgterm) (flag : bool) (dg : Design.dgterm).
Variable d : list (option String.string).
Variables n p : nat.
Let G := List.length (Design.dg_groups dg).

Hypothesis built : GroupEntry.treatment_gterm nrows tg flag dg d.
Hypothesis clean : GroupEntry.clean_block (Design.dg_rows dg) n (G * p).
Hypothesis seen : forall i : 'I_n, (GroupEntry.gidx (Design.dg_groups dg) d i < G)%N.

(* the group of an observation, as the model computes it *)
Definition grp_of (i : 'I_n) : 'I_G := Ordinal (seen i).

Lemma grp_ofE i : (grp_of i : nat) = GroupEntry.gidx (Design.dg_groups dg) d i.
Proof. by []. Qed.

Let M := M_of n G p dg.
Let E := E_of n p dg.

(* the cells, from the list theorem *)
Lemma gterm_cells (i : 'I_n) (l : 'I_G) (j : 'I_p) :
  exists q : Qc, GroupEntry.ecell dg i j = Some q /\
    GroupEntry.gcell dg i (l * p + j) = Some (if grp_of i == l then q else 0).
Proof.
have [q [eq gq]] := @GroupEntry.treatment_gterm_entry nrows tg flag dg d n p built clean
                      i l j (ltP (ltn_ord i)) (ltP (ltn_ord l)) (ltP (ltn_ord j)).
exists q; split=> //; rewrite gq; congr (Some _).
rewrite -(inj_eq val_inj) /= eq_sym.
by case: (PeanoNat.Nat.eqb_spec l (GroupEntry.gidx (Design.dg_groups dg) d i)) => [->|/eqP/negbTE->];
  rewrite ?eqxx.
Qed.

Lemma E_of_cell (i : 'I_n) (j : 'I_p) : GroupEntry.ecell dg i j = Some (E i j).
Proof.
case: (posnP G) => [G0 | Gpos]; last first.
  by have [q [eq _]] := gterm_cells i (Ordinal Gpos) j; rewrite /E E_ofE eq.
(* no group at all: then there is no observation either *)
by have := seen i; rewrite G0.
Qed.

(** The block of the built term IS the level-major group block of its effect matrix. *)
Theorem gterm_bridge : M = gblock_lm grp_of E.
Proof.
apply: gblock_lm_entrywise_nat => i k l j kE.
have [q [eq gq]] := gterm_cells i l j.
by rewrite /M M_ofE kE gq /E E_ofE eq /=; case: (grp_of i == l).
Qed.

(** ... hence its rank is the sum over the groups of the rank of the effect matrix on the group, *)
Theorem gterm_rank : \rank M = (\sum_l \rank (gsub grp_of l E))%N.
Proof. by rewrite gterm_bridge rank_gblock_lm rank_gblock. Qed.

(** ... its G * p columns are independent iff E has independent columns within every group, *)
Theorem gterm_full_rank : (\rank M == (G * p)%N) = [forall l, \rank (gsub grp_of l E) == p].
Proof. by rewrite gterm_bridge rank_gblock_lm (mulnC G p) gblock_full_rank. Qed.

Theorem gterm_indepP :
  reflect (forall l (c : 'cV[Qc]_p), (forall i, grp_of i = l -> (E *m c) i 0 = 0) -> c = 0)
          (\rank M == (G * p)%N).
Proof. by rewrite gterm_bridge rank_gblock_lm (mulnC G p); exact: gblock_indepP. Qed.

(** ... and its column space is "one regression on E per group". *)
Theorem gterm_spanP (v : 'cV[Qc]_n) :
  reflect (forall l, exists c : 'cV[Qc]_p, forall i, grp_of i = l -> v i 0 = (E *m c) i 0)
          (v^T <= M^T)%MS.
Proof. by rewrite gterm_bridge (gblock_lm_eqmx grp_of E); exact: gblock_spanP. Qed.

(* a group with fewer observations than effect columns: deficient *)
Corollary gterm_small_group l : (#|[pred i | grp_of i == l]| < p)%N -> (\rank M < G * p)%N.
Proof. by rewrite gterm_bridge rank_gblock_lm (mulnC G p); exact: gblock_small_group. Qed.

End Bridge.

(* ------------------------------------------------------------------------------------------- *)
(* 4. (0 + x|g): one effect column                                                               *)
(* ------------------------------------------------------------------------------------------- *)
Section Slope.
Variables (nrows : nat) (tg : Design.tgterm) (flag : bool) (dg : Design.dgterm).
Variable d : list (option String.string).
Variable n : nat.
Let G := List.length (Design.dg_groups dg).

Hypothesis built : GroupEntry.treatment_gterm nrows tg flag dg d.
Hypothesis clean : GroupEntry.clean_block (Design.dg_rows dg) n (G * 1).
Hypothesis seen : forall i : 'I_n, (GroupEntry.gidx (Design.dg_groups dg) d i < G)%N.

Let grp := grp_of seen.
Let x := E_of n 1 dg.

Theorem gterm_slope_indep :
  reflect (forall l, exists i, grp i = l /\ x i 0 != 0) (\rank (M_of n G 1 dg) == G).
Proof.
rewrite (gterm_bridge built clean seen) rank_gblock_lm -[X in _ == X]mul1n.
exact: group_slope_indepP.
Qed.

(* the condition, read off the cells of the model *)
Theorem gterm_slope_indep_model :
  (\rank (M_of n G 1 dg) == G) <->
  (forall l, (l < G)%coq_nat ->
     exists i q, [/\ (i < n)%coq_nat, GroupEntry.gidx (Design.dg_groups dg) d i = l,
                     GroupEntry.ecell dg i 0 = Some q & q <> 0]).
Proof.
split=> [/gterm_slope_indep H l /ltP lG | H].
  have [i [gl xi]] := H (Ordinal lG); exists i, (x i 0); split.
  - exact/ltP.
  - by rewrite -(grp_ofE seen) -/grp gl.
  - exact: (E_of_cell built clean seen i 0).
  - exact/eqP.
apply/gterm_slope_indep => l; have [i [q [/ltP ilt gl eq /eqP q0]]] := H l (ltP (ltn_ord l)).
exists (Ordinal ilt); split; first exact/val_inj.
by have := E_of_cell built clean seen (Ordinal ilt) 0; rewrite /= eq => -[<-].
Qed.

End Slope.

(* ------------------------------------------------------------------------------------------- *)
(* 5. (x|g) = (1|g) + (x|g): two built terms over the same factor, side by side                  *)
(* ------------------------------------------------------------------------------------------- *)
Section InterceptSlope.
Variables (nrows : nat) (tg1 tgx : Design.tgterm) (flag1 flagx : bool) (dg1 dgx : Design.dgterm).
Variable d : list (option String.string).
Variable n : nat.
Let G := List.length (Design.dg_groups dgx).

Hypothesis built1 : GroupEntry.treatment_gterm nrows tg1 flag1 dg1 d.
Hypothesis builtx : GroupEntry.treatment_gterm nrows tgx flagx dgx d.
Hypothesis intercept : Design.tg_expr tg1 = Design.TTIntercept.
Hypothesis same : Design.tg_factor tg1 = Design.tg_factor tgx.
Hypothesis clean1 : GroupEntry.clean_block (Design.dg_rows dg1) n (G * 1).
Hypothesis cleanx : GroupEntry.clean_block (Design.dg_rows dgx) n (G * 1).
Hypothesis seen : forall i : 'I_n, (GroupEntry.gidx (Design.dg_groups dgx) d i < G)%N.

Let grp := grp_of seen.
Let x := E_of n 1 dgx.

Lemma same_groups : Design.dg_groups dg1 = Design.dg_groups dgx.
Proof.
case: built1 => [c [fd [r [nu [o [b1 _]]]]]]; case: builtx => [c' [fd' [r' [nu' [o' [bx _]]]]]].
by have [] := GroupEntry.gterm_same_factor _ _ _ _ _ _ _ b1 bx same.
Qed.

(* the block of (1|g) is the one-hot matrix of the groups *)
Lemma gterm_intercept_block : M_of n G 1 dg1 = gblock_lm grp (const_mx 1).
Proof.
have clean1' : GroupEntry.clean_block (Design.dg_rows dg1) n
                 (List.length (Design.dg_groups dg1) * 1) by rewrite same_groups.
have seen1 : forall i : 'I_n,
    (GroupEntry.gidx (Design.dg_groups dg1) d i < List.length (Design.dg_groups dg1))%N.
  by rewrite same_groups.
apply: gblock_lm_entrywise_nat => i k l j; rewrite (ord1 j) => kE.
have [q [eq gq]] := gterm_cells built1 clean1' seen1 i (cast_ord (esym (congr1 _ same_groups)) l) 0.
case: built1 => [c [fd [r [nu [o [b1 _]]]]]].
have q1 := GroupEntry.gterm_intercept_ecell _ _ _ _ _ b1 intercept _ eq.
rewrite M_ofE kE mxE /= in gq *; rewrite gq /= q1.
rewrite -!(inj_eq val_inj) /=; move: (seen1 i) (seen i); rewrite same_groups => s1 s2.
by case: (_ == _).
Qed.

Theorem gterm_int_slope_rank :
  \rank (row_mx (M_of n G 1 dg1) (M_of n G 1 dgx)) = \rank (gblock grp (int_slope x)).
Proof.
rewrite gterm_intercept_block (gterm_bridge builtx cleanx seen) -/grp -/x.
rewrite -rank_gblock_row_mx -!(mxrank_tr (row_mx _ _)) !tr_row_mx -!(addsmxE _ _).1.
exact: (adds_eqmx (gblock_lm_eqmx grp _) (gblock_lm_eqmx grp _)).1.
Qed.

(** [ (1|g) | (x|g) ] as the model builds them: the 2G columns are independent iff x is not
    constant within any group. *)
Theorem gterm_int_slope_indep :
  reflect (forall l, exists i i', [/\ grp i = l, grp i' = l & x i 0 != x i' 0])
          (\rank (row_mx (M_of n G 1 dg1) (M_of n G 1 dgx)) == (2 * G)%N).
Proof. rewrite gterm_int_slope_rank; exact: group_int_slope_indepP. Qed.

Theorem gterm_int_slope_indep_model :
  (\rank (row_mx (M_of n G 1 dg1) (M_of n G 1 dgx)) == (2 * G)%N) <->
  (forall l, (l < G)%coq_nat ->
     exists i i' q q',
       [/\ (i < n)%coq_nat /\ (i' < n)%coq_nat,
           GroupEntry.gidx (Design.dg_groups dgx) d i = l /\
           GroupEntry.gidx (Design.dg_groups dgx) d i' = l,
           GroupEntry.ecell dgx i 0 = Some q /\ GroupEntry.ecell dgx i' 0 = Some q' & q <> q']).
Proof.
split=> [/gterm_int_slope_indep H l /ltP lG | H].
  have [i [i' [gl gl' xx]]] := H (Ordinal lG); exists i, i', (x i 0), (x i' 0); split.
  - by split; exact/ltP.
  - by rewrite -!(grp_ofE seen) -/grp gl gl'.
  - by split; [exact: (E_of_cell builtx cleanx seen i 0) | exact: (E_of_cell builtx cleanx seen i' 0)].
  - exact/eqP.
apply/gterm_int_slope_indep => l.
have [i [i' [q [q' [[/ltP ilt /ltP ilt'] [gl gl'] [eq eq'] /eqP qq]]]]] := H l (ltP (ltn_ord l)).
exists (Ordinal ilt), (Ordinal ilt'); split; try exact/val_inj.
have := E_of_cell builtx cleanx seen (Ordinal ilt) 0; rewrite /= eq => -[<-].
by have := E_of_cell builtx cleanx seen (Ordinal ilt') 0; rewrite /= eq' => -[<-].
Qed.

End InterceptSlope.

(* ------------------------------------------------------------------------------------------- *)
(* 6. y ~ x + (x|g), six observations, two groups: from the run of the model to rank 4           *)
(* ------------------------------------------------------------------------------------------- *)
Section Example.
Import GroupEntry.GroupEntryExample.

Lemma ex_seen_ord (i : 'I_6) :
  (GroupEntry.gidx (Design.dg_groups dgx) exg i < List.length (Design.dg_groups dgx))%N.
Proof. exact/ltP/ex_seen/ltP. Qed.

(* the model is run ([ex_built]: design_matrices ... = Ok ex_ds, whose group-specific terms are
   dg1 = (1|g) and dgx = (x|g)); the four group-specific columns of the design are independent *)
Example ex_bridge_rank :
  Design.design_matrices ex_cx ex_e exD Design.NaDrop = Base.Ok ex_ds /\
  Design.ds_group ex_ds = (dg1 :: dgx :: nil)%list /\
  \rank (row_mx (M_of 6 2 1 dg1) (M_of 6 2 1 dgx)) = 4%N.
Proof.
split; first exact: ex_built.
split; first by case: ex_groups.
apply/eqP; have [_ sm] := ex_intercept.
apply/(gterm_int_slope_indep_model ex_treatment1 ex_treatmentx (proj1 ex_intercept) sm
         ex_clean1 ex_cleanx ex_seen_ord) => l lG.
have [i [i' [q [q' [ilt [ilt' [gl [gl' [eq [eq' qq]]]]]]]]]] := ex_varies l lG.
by exists i, i', q, q'; split.
Qed.

(* the slope block alone, (x|g) read as (0 + x|g): x is non-zero somewhere in both groups *)
Example ex_bridge_slope_rank : \rank (M_of 6 2 1 dgx) = 2%N.
Proof.
apply/eqP/(gterm_slope_indep_model ex_treatmentx ex_cleanx ex_seen_ord) => l lG.
have [i [i' [q [q' [ilt [ilt' [gl [gl' [eq [eq' qq]]]]]]]]]] := ex_varies l lG.
case: (Qcanon.Qc_eq_dec q 0) => [q0 | nq0]; last by exists i, q; split.
by exists i', q'; split=> // q'0; apply: qq; rewrite q0 q'0.
Qed.

End Example.

Print Assumptions mxvec_index_val.
Print Assumptions gblock_lm_entrywise.
Print Assumptions gblock_lm_entrywise_nat.
Print Assumptions gterm_bridge.
Print Assumptions gterm_rank.
Print Assumptions gterm_full_rank.
Print Assumptions gterm_indepP.
Print Assumptions gterm_spanP.
Print Assumptions gterm_small_group.
Print Assumptions gterm_slope_indep.
Print Assumptions gterm_slope_indep_model.
Print Assumptions gterm_intercept_block.
Print Assumptions gterm_int_slope_indep.
Print Assumptions gterm_int_slope_indep_model.
Print Assumptions ex_bridge_rank.
Print Assumptions ex_bridge_slope_rank.
