(* The tensor bridge: from the combinatorial partition property of contrast codings
   (Proofs/ContrastsPartition.v, pick_contrasts_partition) to full column rank and the right
   column space of the design matrix on complete-factorial data.

   Setting.  F a field, I a finite type of categorical factors, factor f has (n f).+1 >= 1
   levels.  A cell is a choice of one level per factor, cell = {dffun forall f, 'I_(n f).+1};
   complete-factorial data has one observation per cell, so response vectors and design columns
   are functions on cells, fn = {ffun cell -> F^o}, a vectType of dimension #|cell| (vector.v:
   free, <<X>>%VS, \dim, directv).  A contrast family gives for every factor an (n f).+1 x n f
   matrix C f (column i = i-th contrast as a function of the level); it is valid when
   cbasis f = [1 | C f] is invertible (valid_contrasts) -- exactly what LinAlg/Contrast.v proves
   for Treatment coding with any reference level and for Sum coding when the number of levels
   is nonzero in F (section 9: treat_valid, sum_valid, mixed_valid).

   Multi-indices j have the same type as cells: j f = 0 selects the constant function of factor
   f, j f = i+1 its i-th contrast.  E j x = prod_f cbasis f (x f) (j f),  supp j = {f | j f != 0}.

     E_basis              the E_j form a basis of fn (tensor product of bases; the proof inverts
                          explicitly with the dual family D and bigA_distr_dffun, the
                          product-of-sums formula for dependent finite functions)
     W A                  coordinate subspace spanned by the E_j, j in A;  dim_W : \dim = #|A|
     V S = W {j | supp j = S}        pure interaction space;  dim_V : prod_{f in S} n f
     M U = W {j | supp j in U}       model space;  M_sum, M_direct : M U = (+)_{S in U} V S

   A coding is a pair (R, Fl) of (disjoint: wf_coding) sets of reduced and full factors, its
   interval ivl (R,Fl) is {S | R <= S <= R u Fl}, its block of design columns is
     bcol (R,Fl) q x = prod_{f in R} cbasis f (x f) (q f) * prod_{f in Fl} [x f == q f]
   for q in idx (ivl c), i.e. q f != 0 on R (a genuine contrast column, col_contrast),
   any level on Fl, 0 elsewhere (col_honest, block_colP relate this to the naive indexing).

     (T1) block_span, block_span_sum, block_free, size_block_prod
     (T2) term_span, terms_span, M_down_closed
     (T3) tensor_bridge (hypothesis in the shape of pick_contrasts_partition: every factor set S
          lies in (S \in U) intervals), tensor_bridge_pairwise, design_free, design_span_covered,
          converse design_overlap_dependent; elementary/matrix forms free_elementary,
          span_elementary, design_mx_free, design_mx_rank
     (T4) model_space_indep, design_colspace_indep, coding_interchange
   Examples in section 10; replication of cells in section 11 (replicate_free, replicate_span).
   Not formalised: numeric covariates. *)
From Verif Require Import Contrast.
From mathcomp Require Import all_ssreflect all_algebra.

Set Implicit Arguments.
Unset Strict Implicit.
Unset Printing Implicit Defensive.

Import GRing.Theory Num.Theory.
Local Open Scope ring_scope.

(* ------------------------------------------------------------------------------------------- *)
(* 0. Product of sums = sum over DEPENDENT finite functions                                      *)
(* ------------------------------------------------------------------------------------------- *)
Section DepDistr.
Variables (R : Type) (zero one : R).
Variable times : Monoid.mul_law zero.
Variable plus : Monoid.add_law zero times.
Variables (I : finType) (L : I -> finType).

Lemma bigA_distr_dffun (G : forall i, L i -> R) :
  \big[times/one]_(i : I) \big[plus/zero]_(j : L i) G i j =
  \big[plus/zero]_(q : {dffun forall i, L i}) \big[times/one]_i G i (q i).
Proof.
pose J := {i : I & L i}.
pose G' (u : J) := G (tag u) (tagged u).
pose Q (i : I) : pred J := [pred u | tag u == i].
pose h (q : {dffun forall i, L i}) : {ffun I -> J} := [ffun i => Tagged L (q i)].
transitivity (\big[times/one]_(i : I) \big[plus/zero]_(u : J | Q i u) G' u).
  apply: eq_bigr => i _.
  transitivity (\big[plus/zero]_(i' | i' == i) \big[plus/zero]_(j : L i') G i' j).
    by rewrite big_pred1_eq.
  rewrite (sig_big_dep (op := plus) (pred1 i) (fun i' => predT) G).
  by apply: eq_bigl => u; rewrite /Q /= andbT.
rewrite bigA_distr_big_dep.
have h_inj : injective h.
  move=> q1 q2 /ffunP eq12; apply/ffunP=> i; have := eq12 i; rewrite !ffunE.
  by move/eqP; rewrite eq_Tagged /= => /eqP.
transitivity (\big[plus/zero]_(g in [set h q | q in predT])
                \big[times/one]_i G' (g i)).
  apply: eq_bigl => g; apply/idP/imsetP => [Hg | [q _ ->]]; last first.
    by apply/familyP => i; rewrite ffunE /Q inE.
  have H i : tag (g i) = i by move/familyP/(_ i): Hg => /eqP.
  pose q : {dffun forall i, L i} := [ffun i => ecast i (L i) (H i) (tagged (g i))].
  exists q => //; apply/ffunP => i; rewrite !ffunE.
  by move: (H i); case: (g i) => i' y /= e; case: _ / e.
rewrite big_imset /=; last by move=> q1 q2 _ _; apply: h_inj.
by apply: eq_bigr => q _; apply: eq_bigr => i _; rewrite /G' ffunE.
Qed.

End DepDistr.

(* small bigop helpers over a field *)
Section Helpers.
Variable F : fieldType.

Lemma prod_boolR (I : finType) (P : pred I) (b : I -> bool) :
  \prod_(i | P i) (b i)%:R = [forall i, P i ==> b i]%:R :> F.
Proof.
case: forallP => [H | nH].
  by rewrite big1 // => i Pi; have := H i; rewrite Pi /= => ->.
have [i Hi] : exists i, ~~ (P i ==> b i).
  by apply/existsP; rewrite -negb_forall; apply/forallP.
move: Hi; rewrite negb_imply => /andP[Pi /negbTE bi].
by rewrite (bigD1 i) //= bi mul0r.
Qed.

Lemma sum_delta_r (T : finType) (a : T -> F) y : \sum_l a l * (y == l)%:R = a y.
Proof.
rewrite (bigD1 y) //= eqxx mulr1 big1 ?addr0 // => l ne.
by rewrite eq_sym (negbTE ne) mulr0.
Qed.

Lemma sum_delta_l (T : finType) (a : T -> F) y : \sum_l (y == l)%:R * a l = a y.
Proof.
rewrite (bigD1 y) //= eqxx mul1r big1 ?addr0 // => l ne.
by rewrite eq_sym (negbTE ne) mul0r.
Qed.

End Helpers.

(* ------------------------------------------------------------------------------------------- *)
(* 1. Cells, product functions, the tensor basis                                                 *)
(* ------------------------------------------------------------------------------------------- *)
Section Tensor.
Variables (F : fieldType) (I : finType) (n : I -> nat).

(* factor f has (n f).+1 >= 1 levels; a cell chooses one level per factor *)
Local Notation cell := {dffun forall f : I, 'I_(n f).+1}.
(* functions on cells = response vectors of complete-factorial data, one observation per cell *)
Local Notation fn := {ffun cell -> F^o}.

(* a contrast family: n f columns, functions of the level *)
Variable C : forall f : I, 'M[F]_((n f).+1, n f).

(* constant | contrasts, a square matrix *)
Definition cbasis f : 'M[F]_((n f).+1) := row_mx (const_mx 1 : 'M_(_, 1)) (C f).

Definition valid_contrasts := forall f, cbasis f \in unitmx.
Hypothesis C_valid : valid_contrasts.

Lemma cbasis0 f l : cbasis f l ord0 = 1.
Proof.
have ->: ord0 = lshift (n f) (ord0 : 'I_1) by apply: val_inj.
by rewrite [LHS](row_mxEl (const_mx 1 : 'M_(_, 1)) (C f) l ord0) mxE.
Qed.

Lemma cbasisS f l (i : 'I_(n f)) : cbasis f l (lift ord0 i) = C f l i.
Proof.
have ->: lift ord0 i = rshift 1 i by apply: val_inj.
exact: (row_mxEr (const_mx 1 : 'M_(_, 1)) (C f) l i).
Qed.

Lemma cbasis_nz f l (j : 'I_(n f).+1) :
  j != ord0 -> exists2 i : 'I_(n f), j = lift ord0 i & cbasis f l j = C f l i.
Proof.
by case: (unliftP ord0 j) => [i -> _|->]; [exists i; rewrite ?cbasisS | rewrite eqxx].
Qed.

(* the product functions E_j, j a multi-index (same finite type as cells) *)
Definition E (j : cell) : fn := [ffun x : cell => \prod_f cbasis f (x f) (j f)].
(* dual family *)
Definition D (j y : cell) : F := \prod_f invmx (cbasis f) (j f) (y f).

Lemma cell_eqE (x y : cell) : [forall f, true ==> (x f == y f)] = (x == y).
Proof.
apply/forallP/eqP => [H | -> f]; last by rewrite eqxx.
by apply/ffunP => f; apply/eqP; have := H f.
Qed.

Lemma E_dual x y : \sum_j E j x * D j y = (x == y)%:R.
Proof.
transitivity (\sum_(j : cell) \prod_f (cbasis f (x f) (j f) * invmx (cbasis f) (j f) (y f))).
  by apply: eq_bigr => j _; rewrite ffunE /D big_split.
rewrite -(bigA_distr_dffun _ _ (fun f jf => cbasis f (x f) jf * invmx (cbasis f) jf (y f))).
transitivity (\prod_f ((x f == y f)%:R : F)); last by rewrite prod_boolR cell_eqE.
apply: eq_bigr => f _.
have := mulmxV (C_valid f) => /matrixP/(_ (x f) (y f)); rewrite !mxE => <-.
by [].
Qed.

Lemma scale_fnE (a : F) (g : fn) x : (a *: g) x = a * g x.
Proof. by rewrite ffunE. Qed.

(* every function on cells is a combination of the E_j *)
Lemma E_expand (g : fn) : g = \sum_j (\sum_y D j y * g y) *: E j.
Proof.
apply/ffunP => x; rewrite sum_ffunE.
transitivity (\sum_y (\sum_j E j x * D j y) * g y).
  under eq_bigr => y _ do rewrite E_dual.
  by rewrite sum_delta_l.
under eq_bigr => y _ do rewrite mulr_suml.
rewrite exchange_big /=; apply: eq_bigr => j _.
rewrite scale_fnE mulr_suml; apply: eq_bigr => y _.
by rewrite -mulrA mulrC.
Qed.

Definition Eseq (A : {set cell}) : seq fn := [seq E j | j <- enum A].
Implicit Types (A : {set cell}) (j q x y : cell).

Lemma dim_fn : \dim (fullv : {vspace fn}) = #|cell|.
Proof. by rewrite dimvf /Vector.dim /= muln1. Qed.

Lemma E_basis : basis_of (fullv : {vspace fn}) (Eseq setT).
Proof.
rewrite basisEdim size_map -cardE cardsT dim_fn leqnn andbT.
apply/subvP => g _; rewrite (E_expand g); apply: memv_suml => j _.
by apply: memvZ; apply: memv_span; apply: map_f; rewrite mem_enum inE.
Qed.

Lemma E_free A : free (Eseq A).
Proof.
have perm: perm_eq (Eseq setT) (Eseq A ++ Eseq (~: A)).
  rewrite /Eseq -map_cat perm_map // -(perm_filterC (mem A)) perm_cat //.
  - apply: uniq_perm => [||j]; [exact/filter_uniq/enum_uniq | exact: enum_uniq |].
    by rewrite mem_filter !mem_enum /= inE andbT.
  - apply: uniq_perm => [||j]; [exact/filter_uniq/enum_uniq | exact: enum_uniq |].
    by rewrite mem_filter !mem_enum /= !inE andbT.
by have /basis_free := E_basis; rewrite (perm_free perm); apply: catl_free.
Qed.

(* coordinate subspaces *)
Definition W (A : {set cell}) : {vspace fn} := <<Eseq A>>%VS.

Lemma dim_W A : \dim (W A) = #|A|.
Proof. by have /eqP := E_free A; rewrite /free size_map -cardE. Qed.

Lemma E_in_W A j : j \in A -> E j \in W A.
Proof. by move=> Aj; apply: memv_span; apply: map_f; rewrite mem_enum. Qed.

Lemma W_sub A A' : A \subset A' -> (W A <= W A')%VS.
Proof.
move=> /subsetP sA; apply/span_subvP => _ /mapP[j jA ->].
by rewrite mem_enum in jA; apply/E_in_W/sA.
Qed.

(* ------------------------------------------------------------------------------------------- *)
(* 2. Codings, intervals, blocks of design columns                                               *)
(* ------------------------------------------------------------------------------------------- *)

(* a coding = (reduced factors, full factors) *)
Definition coding := ({set I} * {set I})%type.
Implicit Types (c : coding) (S T : {set I}) (U : {set {set I}}).

Definition wf_coding c := [disjoint c.1 & c.2].

(* the interval { S | R <= S <= R u Fl } *)
Definition ivl c : {set {set I}} :=
  [set S : {set I} | (c.1 \subset S) && (S \subset c.1 :|: c.2)].

(* support of a multi-index: the factors where it picks a contrast rather than the constant *)
Definition supp j : {set I} := [set f | j f != ord0].

(* multi-indices with support in a family U of factor sets *)
Definition idx U : {set cell} := [set j | supp j \in U].

(* pure interaction space of S; model space of a family U of factor sets *)
Definition V S : {vspace fn} := W (idx [set S]).
Definition M U : {vspace fn} := W (idx U).

(* block column number q of coding (R, Fl): q f != 0 picks contrast column (q f - 1) of a reduced
   factor f in R, and q f picks a level of a full factor f in Fl (q f = 0 elsewhere) *)
Definition bcol c q : fn :=
  [ffun x : cell => (\prod_(f in c.1) cbasis f (x f) (q f)) *
                    (\prod_(f in c.2) (x f == q f)%:R)].

Definition block c : seq fn := [seq bcol c q | q <- enum (idx (ivl c))].

Lemma size_block c : size (block c) = #|idx (ivl c)|.
Proof. by rewrite size_map -cardE. Qed.

Lemma E_in_block c j : wf_coding c -> j \in idx (ivl c) -> E j \in <<block c>>%VS.
Proof.
case: c => R Fl; rewrite /wf_coding /= => dRF; rewrite !inE /= => /andP[Rj jRF].
pose agree q := [forall f, (f \notin Fl) ==> (j f == q f)].
pose coef q : F := \prod_(f in Fl) cbasis f (q f) (j f).
have agree_in q : agree q -> q \in idx (ivl (R, Fl)).
  move=> /forallP ag; rewrite !inE /=; apply/andP; split; apply/subsetP => f; rewrite !inE.
  - move=> Rf; have fFl : f \notin Fl by rewrite (disjointFr dRF Rf).
    have := ag f; rewrite fFl /= => /eqP <-.
    by have /subsetP/(_ f Rf) := Rj; rewrite inE.
  - move=> qf; case fFl: (f \in Fl); rewrite ?orbT // orbF.
    have := ag f; rewrite fFl /= => /eqP eq.
    by have /subsetP/(_ f) := jRF; rewrite !inE eq qf fFl orbF; apply.
have -> : E j = \sum_(q | agree q) coef q *: bcol (R, Fl) q.
  apply/ffunP => x; rewrite sum_ffunE ffunE.
  pose H f (l : 'I_(n f).+1) : F :=
    if f \in Fl then cbasis f l (j f) * (x f == l)%:R
    else (j f == l)%:R * cbasis f (x f) (j f).
  transitivity (\prod_f \sum_l H f l).
    apply: eq_bigr => f _; rewrite /H; case: (f \in Fl); first by rewrite sum_delta_r.
    by rewrite sum_delta_l.
  rewrite bigA_distr_dffun [RHS]big_mkcond /=; apply: eq_bigr => q _.
  rewrite scale_fnE ffunE /= (bigID (mem Fl)) /=.
  have -> : \prod_(f in Fl) H f (q f) = coef q * \prod_(f in Fl) (x f == q f)%:R.
    by rewrite -big_split /=; apply: eq_bigr => f fFl; rewrite /H fFl.
  have -> : \prod_(f | f \notin Fl) H f (q f) =
            (agree q)%:R * \prod_(f | f \notin Fl) cbasis f (x f) (j f).
    rewrite /agree -prod_boolR -big_split /=; apply: eq_bigr => f fFl.
    by rewrite /H (negbTE fFl).
  case ag: (agree q); last by rewrite mul0r mulr0.
  rewrite mul1r -mulrA; congr (_ * _); rewrite mulrC; congr (_ * _).
  rewrite (bigID (mem R)) /= [X in _ * X]big1 ?mulr1; last first.
    move=> f /andP[fFl fR]; suff -> : j f = ord0 by rewrite cbasis0.
    apply/eqP/negPn/negP => jf; have /subsetP/(_ f) := jRF.
    by rewrite !inE jf (negbTE fFl) (negbTE fR) => /(_ isT).
  apply: eq_big => [f | f /andP[fFl _]].
    by case fR: (f \in R); rewrite ?andbF // andbT (disjointFr dRF fR).
  by have /forallP/(_ f) := ag; rewrite fFl /= => /eqP ->.
apply: memv_suml => q ag; apply: memvZ; apply: memv_span; apply: map_f.
by rewrite mem_enum; apply: agree_in.
Qed.

(* (T1) the block of a coding spans exactly the coordinate subspace of its interval ... *)
Theorem block_span c : wf_coding c -> (<<block c>> = W (idx (ivl c)))%VS.
Proof.
move=> wf; apply/esym/eqP; rewrite eqEdim dim_W -size_block dim_span andbT.
apply/span_subvP => _ /mapP[j jA ->]; rewrite mem_enum in jA; exact: E_in_block.
Qed.

(* ... and its columns are linearly independent *)
Theorem block_free c : wf_coding c -> free (block c).
Proof. by move=> wf; rewrite /free block_span // dim_W size_block. Qed.

Lemma idx_sub U U' : U \subset U' -> idx U \subset idx U'.
Proof. by move=> /subsetP sU; apply/subsetP => j; rewrite !inE; apply: sU. Qed.

(* the model space is the direct sum of the pure interaction spaces *)
Lemma M_sum U : M U = (\sum_(S in U) V S)%VS.
Proof.
apply/eqP; rewrite eqEsubv; apply/andP; split; last first.
  by apply/subv_sumP => S SU; apply/W_sub/idx_sub; rewrite sub1set.
apply/span_subvP => _ /mapP[j jA ->]; rewrite mem_enum inE in jA.
apply: (subvP (sumv_sup (supp j) jA (subvv _))).
by apply: E_in_W; rewrite !inE.
Qed.

Lemma M_dim U : \dim (M U) = (\sum_(S in U) \dim (V S))%N.
Proof.
rewrite dim_W -sum1_card (partition_big supp (mem U)) /=; last by move=> j; rewrite inE.
apply: eq_bigr => S SU; rewrite dim_W -sum1_card; apply: eq_bigl => j.
by rewrite !inE; case: eqP => [->|]; rewrite ?SU ?andbF.
Qed.

Lemma M_direct U : directv (\sum_(S in U) V S).
Proof. by rewrite directvE /= -M_sum M_dim. Qed.

(* (T1) in terms of the pure interaction spaces *)
Corollary block_span_sum c :
  wf_coding c -> (<<block c>> = \sum_(S in ivl c) V S)%VS /\ directv (\sum_(S in ivl c) V S).
Proof. by move=> wf; split; [rewrite block_span // -M_sum | apply: M_direct]. Qed.

(* ------------------------------------------------------------------------------------------- *)
(* 3. The design of a list of codings; the main theorem                                          *)
(* ------------------------------------------------------------------------------------------- *)

(* all block columns, block after block *)
Definition design (cs : seq coding) : seq fn := flatten [seq block c | c <- cs].

(* the shape of pick_contrasts_partition: every factor set lies in the interval of exactly one
   coding if it belongs to U and of no coding otherwise *)
Definition partitions (cs : seq coding) U :=
  forall S, count (fun c => S \in ivl c) cs = (S \in U).

Lemma design_span cs :
  all wf_coding cs -> (<<design cs>> = \sum_(c <- cs) W (idx (ivl c)))%VS.
Proof.
rewrite /design; elim: cs => [_ | c cs IH /= /andP[wf wfs]]; first by rewrite span_nil big_nil.
by rewrite span_cat big_cons block_span // IH.
Qed.

Lemma size_design cs : size (design cs) = (\sum_(c <- cs) #|idx (ivl c)|)%N.
Proof.
rewrite /design; elim: cs => [| c cs IH /=]; first by rewrite big_nil.
by rewrite size_cat size_block big_cons IH.
Qed.

Lemma size_design_count cs :
  size (design cs) = (\sum_(j : cell) count (fun c => supp j \in ivl c) cs)%N.
Proof.
rewrite size_design.
under eq_bigr => c _ do rewrite -sum1_card big_mkcond /=.
rewrite exchange_big /=; apply: eq_bigr => j _.
by rewrite -sum1_count [RHS]big_mkcond /=; apply: eq_bigr => c _; rewrite inE.
Qed.

Lemma sumv_seq_sup (T : eqType) (r : seq T) (Vs : T -> {vspace fn}) (t : T) :
  t \in r -> (Vs t <= \sum_(t' <- r) Vs t')%VS.
Proof. by move=> tr; rewrite (big_rem t) //= addvSl. Qed.

Lemma sumv_seq_sub (T : eqType) (r : seq T) (Vs : T -> {vspace fn}) (X : {vspace fn}) :
  (forall t : T, t \in r -> (Vs t <= X)%VS) -> (\sum_(t <- r) Vs t <= X)%VS.
Proof.
move=> H; rewrite big_seq; elim/big_ind: _ => [|A B A_X B_X|t tr]; rewrite ?sub0v //.
  by rewrite subv_add A_X.
exact: H.
Qed.

(* (T3) MAIN THEOREM *)
Theorem tensor_bridge cs U :
  all wf_coding cs -> partitions cs U ->
  free (design cs) /\ (<<design cs>> = M U)%VS.
Proof.
move=> wf part.
have spanE : (<<design cs>> = M U)%VS.
  rewrite design_span //; apply/eqP; rewrite eqEsubv; apply/andP; split.
    apply: sumv_seq_sub => c ccs; apply/W_sub/idx_sub/subsetP => S Sc.
    have := part S; case: (S \in U) => // /eqP; rewrite -leqn0 leqNgt -has_count.
    by case/negP; apply/hasP; exists c.
  apply/span_subvP => _ /mapP[j jA ->]; rewrite mem_enum inE in jA.
  have : has (fun c => supp j \in ivl c) cs by rewrite has_count part jA.
  case/hasP => c ccs jc; apply: (subvP (sumv_seq_sup _ ccs)).
  by apply: E_in_W; rewrite inE.
split=> //; rewrite /free spanE dim_W size_design_count -sum1_card big_mkcond /=.
by apply/eqP/eq_bigr => j _; rewrite part inE; case: (_ \in _).
Qed.

(* ------------------------------------------------------------------------------------------- *)
(* 4. Counting columns                                                                           *)
(* ------------------------------------------------------------------------------------------- *)

Lemma card_family_dffun (A : forall f, pred 'I_(n f).+1) :
  #|[set q : cell | [forall f, A f (q f)]]| = (\prod_f #|A f|)%N.
Proof.
rewrite -sum1_card.
transitivity (\sum_(q : cell) \prod_f (A f (q f) : nat))%N.
  rewrite big_mkcond /=; apply: eq_bigr => q _; rewrite inE.
  case: forallP => [H | nH]; first by rewrite big1 // => f _; rewrite H.
  have [f Hf] : exists f, ~~ A f (q f).
    by apply/existsP; rewrite -negb_forall; apply/forallP.
  by rewrite (bigD1 f) //= (negbTE Hf) mul0n.
rewrite -(bigA_distr_dffun _ _ (fun f l => (A f l : nat))).
apply: eq_bigr => f _; rewrite -sum1_card [RHS]big_mkcond /=.
by apply: eq_bigr => l _; rewrite unfold_in; case: (A f l).
Qed.

(* the number of columns of a block: (n_f - 1) per reduced factor, n_f per full factor *)
Lemma card_idx_interval c : wf_coding c ->
  #|idx (ivl c)| = (\prod_(f in c.1) n f * \prod_(f in c.2) (n f).+1)%N.
Proof.
case: c => R Fl; rewrite /wf_coding /= => dRF.
pose A f : pred 'I_(n f).+1 :=
  if f \in R then [pred l | l != ord0] else if f \in Fl then predT else pred1 ord0.
have -> : idx (ivl (R, Fl)) = [set q : cell | [forall f, A f (q f)]].
  apply/setP => q; rewrite !inE /=; apply/andP/forallP => [[Rq qRF] f | H].
  - rewrite /A; case: ifP => fR; first by have /subsetP/(_ f fR) := Rq; rewrite /= inE.
    case: ifP => //= fFl; apply/negPn/negP => qf.
    by have /subsetP/(_ f) := qRF; rewrite !inE qf fR fFl => /(_ isT).
  - split; apply/subsetP => f; rewrite !inE; have := H f; rewrite /A.
    + by move=> + fR; rewrite fR.
    + by case: (f \in R) => //=; case: (f \in Fl) => //= /eqP -> /eqP.
rewrite card_family_dffun (bigID (mem R)) /=; congr (_ * _)%N.
  apply: eq_bigr => f fR; rewrite /A fR.
  have -> : #|[pred l : 'I_(n f).+1 | l != ord0]| = #|predC1 (ord0 : 'I_(n f).+1)|.
    by apply: eq_card.
  by rewrite cardC1 card_ord.
rewrite (bigID (mem Fl)) /= [X in (_ * X)%N]big1 ?muln1; last first.
  by move=> f /andP[/negbTE fR /negbTE fFl]; rewrite /A fR fFl card1.
apply: eq_big => [f | f /andP[/negbTE fR fFl]].
  by case fFl: (f \in Fl); rewrite ?andbF // andbT (disjointFl dRF fFl).
by rewrite /A fR fFl; rewrite -[RHS]card_ord; apply: eq_card.
Qed.

Lemma size_block_prod c : wf_coding c ->
  size (block c) = (\prod_(f in c.1) n f * \prod_(f in c.2) (n f).+1)%N.
Proof. by move=> wf; rewrite size_block card_idx_interval. Qed.

Lemma ivl_reduced S : ivl (S, set0) = [set S].
Proof.
by apply/setP => T; rewrite !inE /= setU0 -eqEsubset eq_sym.
Qed.

(* dim V_S = prod_{f in S} (n_f - 1) *)
Lemma dim_V S : \dim (V S) = (\prod_(f in S) n f)%N.
Proof.
rewrite dim_W -ivl_reduced card_idx_interval /wf_coding /= ?big_set0 ?muln1 //.
by rewrite disjoint_sym disjoints_subset sub0set.
Qed.

(* the block of the reduced coding (S, 0) is a basis of the pure interaction space V_S *)
Lemma block_reduced_span S : (<<block (S, set0)>> = V S)%VS.
Proof.
rewrite block_span ?ivl_reduced // /wf_coding /=.
by rewrite disjoint_sym disjoints_subset sub0set.
Qed.

(* ------------------------------------------------------------------------------------------- *)
(* 5. Model terms (T2), covers, pairwise-disjoint formulation, converse                          *)
(* ------------------------------------------------------------------------------------------- *)

Lemma W_cover (T : eqType) (r : seq T) (As : T -> {set cell}) A :
  (forall t : T, t \in r -> As t \subset A) ->
  (forall j, j \in A -> exists2 t : T, t \in r & j \in As t) ->
  (\sum_(t <- r) W (As t) = W A)%VS.
Proof.
move=> sub cov; apply/eqP; rewrite eqEsubv; apply/andP; split.
  by apply: sumv_seq_sub => t tr; apply/W_sub/sub.
apply/span_subvP => _ /mapP[j jA ->]; rewrite mem_enum in jA.
have [t tr jt] := cov j jA.
by apply: (subvP (sumv_seq_sup _ tr)); apply: E_in_W.
Qed.

(* a model term with factor set T, coded by all level indicators: the block (0, T) *)
Lemma ivl_full T : ivl (set0, T) = powerset T.
Proof. by apply/setP => S; rewrite !inE /= sub0set set0U. Qed.

(* (T2) the indicator columns of a term span the sum of the V_S, S a subset of T *)
Theorem term_span T : (<<block (set0, T)>> = M (powerset T))%VS.
Proof.
rewrite block_span ?ivl_full // /wf_coding /=.
by rewrite disjoints_subset sub0set.
Qed.

(* the family of factor sets below some term: the union of the power sets *)
Definition down_closure (ts : seq {set I}) : {set {set I}} :=
  [set S : {set I} | has (fun T => S \subset T) ts].

Theorem terms_span ts : (\sum_(T <- ts) <<block (set0, T)>> = M (down_closure ts))%VS.
Proof.
under eq_bigr => T _ do rewrite term_span.
apply: W_cover => [T Tts | j].
  apply/idx_sub/subsetP => S; rewrite powersetE inE => ST.
  by apply/hasP; exists T.
rewrite !inE => /hasP[T Tts jT]; exists T => //.
by rewrite inE powersetE.
Qed.

Definition down_closed U := forall S S', S \in U -> S' \subset S -> S' \in U.

Lemma closure_down_closed ts : down_closed (down_closure ts).
Proof.
move=> S S'; rewrite !inE => /hasP[T Tts ST] S'S; apply/hasP; exists T => //.
exact: subset_trans S'S ST.
Qed.

(* a down-closed model space is spanned by level-indicator columns only *)
Lemma M_down_closed U :
  down_closed U -> M U = (\sum_(T <- enum U) <<block (set0, T)>>)%VS.
Proof.
move=> dc; under eq_bigr => T _ do rewrite term_span.
apply/esym/W_cover => [T | j].
  rewrite mem_enum => TU; apply/idx_sub/subsetP => S; rewrite powersetE => ST.
  exact: dc TU ST.
by rewrite inE => jU; exists (supp j); rewrite ?mem_enum // inE powersetE.
Qed.

(* the column space of any design, without any hypothesis on the intervals *)
Definition covered (cs : seq coding) : {set {set I}} :=
  [set S : {set I} | has (fun c => S \in ivl c) cs].

Lemma design_span_covered cs : all wf_coding cs -> (<<design cs>> = M (covered cs))%VS.
Proof.
move=> wf; rewrite design_span //; apply: W_cover => [c ccs | j].
  by apply/idx_sub/subsetP => S Sc; rewrite inE; apply/hasP; exists c.
by rewrite !inE => /hasP[c ccs jc]; exists c => //; rewrite inE.
Qed.

(* disjoint intervals suffice for independence *)
Theorem design_free cs :
  all wf_coding cs -> (forall S, (count (fun c => S \in ivl c) cs <= 1)%N) ->
  free (design cs).
Proof.
move=> wf le1; have [] // := @tensor_bridge cs (covered cs) wf.
by move=> S; rewrite inE has_count; have := le1 S; case: (count _ _) => [|[|]].
Qed.

(* the hypotheses in the form "pairwise disjoint + cover" *)
Lemma pairwise_count cs S :
  pairwise (fun c c' => [disjoint ivl c & ivl c']) cs ->
  (count (fun c => S \in ivl c) cs <= 1)%N.
Proof.
elim: cs => //= c cs IH /andP[/allP dc /IH le1].
case Sc: (S \in ivl c) => //=; rewrite add1n ltnS leqn0; apply/eqP.
rewrite -(@eq_in_count _ pred0) ?count_pred0 // => c' c'cs /=.
by rewrite (disjointFr (dc c' c'cs) Sc).
Qed.

Theorem tensor_bridge_pairwise cs U :
  all wf_coding cs ->
  pairwise (fun c c' => [disjoint ivl c & ivl c']) cs ->
  (forall S, (S \in U) = has (fun c => S \in ivl c) cs) ->
  free (design cs) /\ (<<design cs>> = M U)%VS.
Proof.
move=> wf pw cov; apply: tensor_bridge => // S.
rewrite cov has_count; have := pairwise_count S pw.
by case: (count _ _) => [|[|]].
Qed.

(* converse: a factor set with at least two levels per factor that lies in two intervals
   makes the columns dependent *)
Theorem design_overlap_dependent cs S :
  all wf_coding cs -> (forall f, f \in S -> (0 < n f)%N) ->
  (1 < count (fun c => S \in ivl c) cs)%N -> ~~ free (design cs).
Proof.
move=> wf pos gt1.
pose j : cell := [ffun f => if f \in S then inord 1 else ord0].
have suppj : supp j = S.
  apply/setP => f; rewrite inE ffunE; case fS: (f \in S); last by rewrite eqxx.
  by rewrite -val_eqE /= inordK // ltnS pos.
rewrite /free design_span_covered // dim_W size_design_count -sum1_card big_mkcond /=.
rewrite neq_ltn; apply/orP; left.
rewrite (bigD1 j) //= [X in (_ < X)%N](bigD1 j) //= -addSn; apply: leq_add.
  by rewrite suppj; case: ifP => _ //; apply: ltnW.
apply: leq_sum => j' _; rewrite !inE has_count.
by case: (count _ _).
Qed.

(* ------------------------------------------------------------------------------------------- *)
(* 6. Elementary and matrix formulations                                                         *)
(* ------------------------------------------------------------------------------------------- *)

Lemma free_elementary (X : seq fn) :
  free X ->
  forall a : 'I_(size X) -> F,
    (forall x : cell, \sum_i a i * X`_i x = 0) -> forall i, a i = 0.
Proof.
move=> frX a a0; have /freeP H : free (in_tuple X) by [].
apply: H; apply/ffunP => x.
rewrite sum_ffunE [RHS]ffunE -[RHS](a0 x); apply: eq_bigr => i _.
by rewrite scale_fnE.
Qed.

Lemma span_elementary (X : seq fn) (g : fn) :
  reflect (exists a : 'I_(size X) -> F, forall x : cell, g x = \sum_i a i * X`_i x)
          (g \in <<X>>%VS).
Proof.
apply: (iffP idP) => [gX | [a ga]].
  exists (fun i => coord (in_tuple X) i g) => x.
  have gX' : g \in <<in_tuple X>>%VS by [].
  rewrite {1}(coord_span gX') sum_ffunE; apply: eq_bigr => i _.
  by rewrite scale_fnE.
have -> : g = \sum_i a i *: X`_i.
  by apply/ffunP => x; rewrite ga sum_ffunE; apply: eq_bigr => i _; rewrite scale_fnE.
by apply: memv_suml => i _; apply: memvZ; apply: memv_span; apply: mem_nth.
Qed.

(* the design matrix: rows = cells (in enumeration order), columns = block columns *)
Definition design_mx cs : 'M[F]_(#|cell|, size (design cs)) :=
  \matrix_(r, i) (design cs)`_i (enum_val r).

Lemma design_mx_free cs : free (design cs) -> row_free (design_mx cs)^T.
Proof.
move=> fr; rewrite -kermx_eq0; apply/rowV0P => v /sub_kermxP vX.
apply/rowP => i; rewrite mxE.
apply: (@free_elementary _ fr (fun i => v ord0 i)) => x.
have /rowP/(_ (enum_rank x)) := vX; rewrite !mxE => H; rewrite -[RHS]H.
by apply: eq_bigr => k _; rewrite !mxE enum_rankK.
Qed.

(* full column rank *)
Corollary design_mx_rank cs U :
  all wf_coding cs -> partitions cs U -> \rank (design_mx cs) = size (design cs).
Proof.
move=> wf part; have [fr _] := tensor_bridge wf part.
by rewrite -mxrank_tr; apply/eqP; apply: design_mx_free.
Qed.

(* ------------------------------------------------------------------------------------------- *)
(* 7. The block columns, readably                                                                *)
(* ------------------------------------------------------------------------------------------- *)

Lemma block_colP c g :
  reflect (exists2 q, q \in idx (ivl c) & g = bcol c q) (g \in block c).
Proof.
apply: (iffP mapP) => [[q qc ->] | [q qc ->]]; exists q => //; first by rewrite mem_enum in qc.
by rewrite mem_enum.
Qed.

(* on a reduced factor the index of a block column is a genuine contrast column *)
Lemma col_contrast c q f :
  q \in idx (ivl c) -> f \in c.1 ->
  exists2 i : 'I_(n f), q f = lift ord0 i & forall l, cbasis f l (q f) = C f l i.
Proof.
rewrite !inE => /andP[/subsetP/(_ f) + _] => H /H; rewrite inE.
case: (unliftP ord0 (q f)) => [i -> _ | ->]; last by rewrite eqxx.
by exists i => // l; rewrite cbasisS.
Qed.

(* the column "contrast i_f of every reduced factor times indicator of level l_f of every full
   factor" is a column of the block (when some reduced factor has a single level there is no
   such i, and the block is empty) *)
Lemma col_honest c (i : forall f, 'I_(n f)) (l : cell) :
  wf_coding c ->
  [ffun x : cell => (\prod_(f in c.1) C f (x f) (i f)) * (\prod_(f in c.2) (x f == l f)%:R)]
    \in block c.
Proof.
case: c => R Fl; rewrite /wf_coding /= => dRF.
pose q : cell := [ffun f => if f \in R then lift ord0 (i f) else if f \in Fl then l f else ord0].
apply/block_colP; exists q.
  rewrite !inE /=; apply/andP; split; apply/subsetP => f; rewrite !inE ffunE.
    by move=> ->; rewrite eq_sym neq_lift.
  by case: (f \in R) => //=; case: (f \in Fl) => //; rewrite eqxx.
apply/ffunP => x; rewrite !ffunE /=; congr (_ * _); apply: eq_bigr => f fX.
  by rewrite ffunE fX cbasisS.
by rewrite ffunE (disjointFl dRF fX) fX.
Qed.

(* with every factor set allowed the model space is everything *)
Lemma M_setT : M setT = fullv.
Proof.
rewrite /M; have -> : idx setT = setT by apply/setP => j; rewrite !inE.
exact: span_basis E_basis.
Qed.

Lemma mem_ivl c S :
  (S \in ivl c) =
  [forall f, ((f \in c.1) ==> (f \in S)) && ((f \in S) ==> ((f \in c.1) || (f \in c.2)))].
Proof.
rewrite inE; apply/andP/forallP => [[/subsetP s1 /subsetP s2] f | H].
  apply/andP; split; apply/implyP; first exact: s1.
  by move/s2; rewrite inE.
split; apply/subsetP => f; have /andP[/implyP h1 /implyP h2] := H f => //.
by rewrite inE.
Qed.

End Tensor.

(* ------------------------------------------------------------------------------------------- *)
(* 8. (T4) Interchangeability of contrast families                                               *)
(* ------------------------------------------------------------------------------------------- *)
Section Interchange.
Variables (F : fieldType) (I : finType) (n : I -> nat).
Variables (C C' : forall f : I, 'M[F]_((n f).+1, n f)).
Hypotheses (vC : valid_contrasts C) (vC' : valid_contrasts C').

(* full-indicator blocks do not mention the contrasts at all *)
Lemma block_full_indep (T : {set I}) : block C (set0, T) = block C' (set0, T).
Proof.
by rewrite /block; apply: eq_map => q; apply/ffunP => x; rewrite !ffunE /= !big_set0.
Qed.

(* V_S depends on the contrast family, the sum over a down-closed family does not *)
Theorem model_space_indep (U : {set {set I}}) : down_closed U -> M C U = M C' U.
Proof.
move=> dc; rewrite (M_down_closed vC dc) (M_down_closed vC' dc).
by apply: eq_bigr => T _; rewrite block_full_indep.
Qed.

(* two designs for the same model, with different contrasts and possibly different codings,
   have the same column space and the same number of (independent) columns *)
Theorem design_colspace_indep (cs cs' : seq (coding I)) (U : {set {set I}}) :
  down_closed U ->
  all (@wf_coding I) cs -> all (@wf_coding I) cs' -> partitions cs U -> partitions cs' U ->
  [/\ (<<design C cs>> = <<design C' cs'>>)%VS, free (design C cs), free (design C' cs')
    & size (design C cs) = size (design C' cs')].
Proof.
move=> dc wf wf' part part'.
have [fr sp] := tensor_bridge vC wf part; have [fr' sp'] := tensor_bridge vC' wf' part'.
split=> //; first by rewrite sp sp' model_space_indep.
by move: fr fr'; rewrite /free sp sp' model_space_indep // => /eqP <- /eqP <-.
Qed.

End Interchange.

(* ------------------------------------------------------------------------------------------- *)
(* 9. Treatment and Sum coding are valid contrast families (LinAlg/Contrast.v)                   *)
(* ------------------------------------------------------------------------------------------- *)
Section Instances.
Variables (F : fieldType) (I : finType) (n : I -> nat).

Lemma treat_valid (r : forall f : I, 'I_(n f).+1) :
  valid_contrasts (fun f => treat F (r f)).
Proof. by move=> f; apply: treat_unit. Qed.

Lemma sum_valid (o : forall f : I, 'I_(n f).+1) :
  (forall f, ((n f).+1)%:R != 0 :> F) -> valid_contrasts (fun f => sumc F (o f)).
Proof. by move=> nz f; apply: sum_unit. Qed.

(* a different coding for every factor *)
Inductive contrast_kind (m : nat) := Treatment of 'I_m.+1 | SumCoding of 'I_m.+1.

Definition contrast_mx m (k : contrast_kind m) : 'M[F]_(m.+1, m) :=
  match k with Treatment r => treat F r | SumCoding o => sumc F o end.

Lemma mixed_valid (ks : forall f : I, contrast_kind (n f)) :
  (forall f o, ks f = SumCoding o -> ((n f).+1)%:R != 0 :> F) ->
  valid_contrasts (fun f => contrast_mx (ks f)).
Proof.
move=> nz f; rewrite /cbasis; case E: (ks f) => [r | o] /=; first exact: treat_unit.
exact: sum_unit (nz f o E).
Qed.

(* changing reference levels, or switching between Treatment and Sum coding, changes neither
   the column space nor the rank of the design of a model *)
Corollary coding_interchange (ks ks' : forall f : I, contrast_kind (n f))
    (cs cs' : seq (coding I)) (ts : seq {set I}) :
  (forall f o, ks f = SumCoding o -> ((n f).+1)%:R != 0 :> F) ->
  (forall f o, ks' f = SumCoding o -> ((n f).+1)%:R != 0 :> F) ->
  all (@wf_coding I) cs -> all (@wf_coding I) cs' ->
  partitions cs (down_closure ts) -> partitions cs' (down_closure ts) ->
  (<<design (fun f => contrast_mx (ks f)) cs>> =
   <<design (fun f => contrast_mx (ks' f)) cs'>>)%VS.
Proof.
move=> nz nz' wf wf' p p'.
by have [] := design_colspace_indep (mixed_valid nz) (mixed_valid nz')
                (@closure_down_closed _ ts) wf wf' p p'.
Qed.

End Instances.

Lemma sum_valid_num (F : numFieldType) (I : finType) (n : I -> nat)
    (o : forall f : I, 'I_(n f).+1) : valid_contrasts (fun f => sumc F (o f)).
Proof. by apply: sum_valid => f; rewrite pnatr_eq0. Qed.

(* ------------------------------------------------------------------------------------------- *)
(* 10. Example: y ~ 1 + a + a:b, a with 2 levels, b with 3 levels                                *)
(* ------------------------------------------------------------------------------------------- *)
Section Example.
Let Q := [fieldType of rat].
(* factors: a = false (2 levels), b = true (3 levels) *)
Let a := false.
Let b := true.
Let nlev (f : bool) : nat := (if f then 2 else 1)%N.
Let Ct : forall f : bool, 'M[Q]_((nlev f).+1, nlev f) := fun f => treat Q ord0.
Let Cs : forall f : bool, 'M[Q]_((nlev f).+1, nlev f) := fun f => sumc Q ord0.

(* intercept; a reduced; a:b with b reduced and a full -- what pick_contrasts returns *)
Let cs : seq (coding bool_finType) :=
  [:: (set0, set0); ([set a], set0); ([set b], [set a])].
(* the other order 1 + b + a:b : a:b gets a reduced and b full *)
Let cs' : seq (coding bool_finType) :=
  [:: (set0, set0); ([set b], set0); ([set a], [set b])].

Lemma forall_bool (P : pred bool) : [forall x, P x] = P true && P false.
Proof.
apply/forallP/andP => [H | [Ht Hf] [] //]; by split; apply: H.
Qed.

Example ex_wf : all (@wf_coding _) cs.
Proof. by rewrite /= /wf_coding /= !disjoints_subset !sub0set !sub1set !inE. Qed.

Example ex_wf' : all (@wf_coding _) cs'.
Proof. by rewrite /= /wf_coding /= !disjoints_subset !sub0set !sub1set !inE. Qed.

Example ex_partition : partitions cs setT.
Proof.
move=> S; rewrite /= !mem_ivl !forall_bool /= !inE /=.
by case: (true \in S); case: (false \in S).
Qed.

Example ex_partition' : partitions cs' setT.
Proof.
move=> S; rewrite /= !mem_ivl !forall_bool /= !inE /=.
by case: (true \in S); case: (false \in S).
Qed.

(* the six columns 1, a2, b2 b3 x (a1, a2) are independent and span all functions on the cells *)
Example ex_bridge : free (design Ct cs) /\ (<<design Ct cs>> = fullv)%VS.
Proof.
have [fr ->] := tensor_bridge (@treat_valid Q _ nlev (fun=> ord0)) ex_wf ex_partition.
by rewrite (M_setT (@treat_valid Q _ nlev (fun=> ord0))).
Qed.

Example ex_size : size (design Ct cs) = 6%N.
Proof.
have := ex_wf; rewrite /= => /and4P[w1 w2 w3 _].
rewrite /design /= !size_cat !size_block_prod //= !big_set0 !big_set1.
by [].
Qed.

Example ex_rank : \rank (design_mx Ct cs) = 6%N.
Proof.
by rewrite (design_mx_rank (@treat_valid Q _ nlev (fun=> ord0)) ex_wf ex_partition) ex_size.
Qed.

(* Sum coding, and the other term order, give the same column space *)
Example ex_interchange : (<<design Ct cs>> = <<design Cs cs'>>)%VS.
Proof.
have dc : down_closed (setT : {set {set bool}}) by move=> S S' _ _; rewrite inE.
by have [] := design_colspace_indep (@treat_valid Q _ nlev (fun=> ord0))
   (@sum_valid_num _ _ nlev (fun=> ord0)) dc ex_wf ex_wf' ex_partition ex_partition'.
Qed.

(* overlapping intervals: coding both a and b fully in a:b on top of the intercept *)
Example ex_overlap : ~~ free (design Ct [:: (set0, set0); (set0, [set a; b])]).
Proof.
apply: (@design_overlap_dependent _ _ _ _ (@treat_valid Q _ nlev (fun=> ord0)) _ set0) => [|f|].
- by rewrite /= /wf_coding /= !disjoints_subset !sub0set.
- by rewrite inE.
- by rewrite /= !mem_ivl !forall_bool /= !inE.
Qed.

End Example.

(* ------------------------------------------------------------------------------------------- *)
(* 11. Replication: data in which every cell occurs at least once                                *)
(* ------------------------------------------------------------------------------------------- *)
Section Replication.
Variables (F : fieldType) (X : finType) (T : finType) (obs : T -> X).
(* T = observations (rows of the data), obs t = the cell of observation t *)
Hypothesis obs_surj : forall x, exists t, obs t = x.

Definition pullback (g : {ffun X -> F^o}) : {ffun T -> F^o} := [ffun t => g (obs t)].

Fact pullback_is_linear : linear pullback.
Proof. by move=> k u v; apply/ffunP => t; rewrite !ffunE. Qed.
Canonical pullback_additive := Additive pullback_is_linear.
Canonical pullback_linear := Linear pullback_is_linear.

Lemma pullback_inj : injective pullback.
Proof.
move=> u v /ffunP e; apply/ffunP => x; have [t <-] := obs_surj x.
by have := e t; rewrite !ffunE.
Qed.

Lemma pullback_ker0 : lker (linfun pullback) == 0%VS.
Proof. by apply/lker0P => u v; rewrite !lfunE; apply: pullback_inj. Qed.

Lemma pullback_span (Y : seq {ffun X -> F^o}) :
  (linfun pullback @: <<Y>> = <<[seq pullback g | g <- Y]>>)%VS.
Proof. by rewrite limg_span; congr (<< _ >>)%VS; apply: eq_map => g; rewrite lfunE. Qed.

(* the columns evaluated on the replicated data are independent iff they are on the cells *)
Theorem replicate_free (Y : seq {ffun X -> F^o}) : free [seq pullback g | g <- Y] = free Y.
Proof.
rewrite /free -pullback_span size_map limg_dim_eq //.
by rewrite (eqP pullback_ker0) capv0.
Qed.

(* and a response is in their span iff it is so on the cells *)
Theorem replicate_span (Y : seq {ffun X -> F^o}) (g : {ffun X -> F^o}) :
  (pullback g \in <<[seq pullback h | h <- Y]>>%VS) = (g \in <<Y>>%VS).
Proof.
by rewrite -pullback_span -[pullback g]lfunE memvE -limg_line limg_ker0 ?pullback_ker0.
Qed.

End Replication.

Print Assumptions bigA_distr_dffun.
Print Assumptions E_basis.
Print Assumptions block_span.
Print Assumptions block_free.
Print Assumptions size_block_prod.
Print Assumptions dim_V.
Print Assumptions M_direct.
Print Assumptions term_span.
Print Assumptions terms_span.
Print Assumptions tensor_bridge.
Print Assumptions tensor_bridge_pairwise.
Print Assumptions design_overlap_dependent.
Print Assumptions design_mx_rank.
Print Assumptions model_space_indep.
Print Assumptions design_colspace_indep.
Print Assumptions coding_interchange.
Print Assumptions ex_bridge.
Print Assumptions ex_rank.
Print Assumptions ex_interchange.
Print Assumptions ex_overlap.
Print Assumptions replicate_free.
Print Assumptions replicate_span.
