(* C05, second sentence, rank layer: on fully crossed data the columns belonging to one grouping
   factor are linearly independent and span all group-by-cell means of the effect expression.

   Route taken: DIRECT INSTANTIATION of the tensor bridge (LinAlg/Tensor.v, tensor_bridge).  The
   bridge needs no down-closed family and no intercept: it holds for ANY family U of factor sets
   that the intervals of the codings partition.  By Proofs/GroupAsCommon.v a group-specific term
   (e|g) is the common interaction term  g:e  with the components of g coded in full and those of
   e coded with the one flag; as codings (reduced factors, full factors) over the factors of the
   data, with G the set of components of the grouping factor and f a categorical effect, f not in G:

     (1|g)              c_int  = (0, G)         interval  powerset G
     (f|g), reduced f   c_red  = ({f}, G)       interval  { S | f in S, S <= f |: G }
     (0 + f|g), full f  c_full = (0, f |: G)    interval  powerset (f |: G)

   and the shapes covered by GroupCoding.agrees_on are
     (1|g)               [c_int]          partitions  powerset G
     (0 + f|g)           [c_full]         partitions  powerset (f |: G)
     (1|g) + (f|g)       [c_int; c_red]   partitions  powerset (f |: G)
   The model space  M (powerset T)  is the span of the complete indicator coding of the term T
   (Tensor.term_span); [cellmeansP] shows it is exactly the space of the functions of the cell that
   depend on the T-coordinates only, i.e. ALL T-cell means, of dimension prod_{i in T} #levels i.

   Setting as in Tensor.v: F any field, I the finite type of categorical factors, (n i).+1 levels,
   one observation per cell of the complete crossing (replication: [group_columns_replicated]),
   C any valid contrast family (Treatment with any reference; Sum over numeric fields).
   Outside: numeric effects (x|g), several effects (0 + f + h|g) (KF-C05-1: there the uniform
   flag gives overlapping intervals, see [group_two_full_effects_dependent]). *)
From Verif Require Import Contrast Tensor.
From mathcomp Require Import all_ssreflect all_algebra.

Set Implicit Arguments.
Unset Strict Implicit.
Unset Printing Implicit Defensive.

Import GRing.Theory.
Local Open Scope ring_scope.

Section GroupRank.
Variables (F : fieldType) (I : finType) (n : I -> nat).
Local Notation cell := {dffun forall f : I, 'I_(n f).+1}.
Local Notation fn := {ffun cell -> F^o}.
Variable C : forall f : I, 'M[F]_((n f).+1, n f).
Hypothesis C_valid : valid_contrasts C.
Implicit Types (T : {set I}) (q x : cell).

(* ------------------------------------------------------------------------------------------- *)
(* 1. All T-cell means                                                                           *)
(* ------------------------------------------------------------------------------------------- *)

(* forget the coordinates outside T *)
Definition restrict (T : {set I}) (x : cell) : cell := [ffun i => if i \in T then x i else ord0].

(* the span of the complete indicator coding of the factor set T *)
Definition cellmeans (T : {set I}) : {vspace fn} := <<block C (set0, T)>>%VS.

Lemma wf_full (T : {set I}) : wf_coding ((set0, T) : coding I).
Proof. by rewrite /wf_coding /= disjoints_subset sub0set. Qed.

Lemma cellmeans_M T : cellmeans T = M C (powerset T).
Proof. exact: term_span. Qed.

Lemma bcol_full T (q x : cell) : bcol C (set0, T) q x = \prod_(i in T) (x i == q i)%:R.
Proof. by rewrite ffunE /= big_set0 mul1r. Qed.

Lemma restrict_in T (x : cell) i : i \in T -> restrict T x i = x i.
Proof. by move=> iT; rewrite ffunE iT. Qed.

Lemma restrict_idx T (x : cell) : restrict T x \in idx n (ivl ((set0, T) : coding I)).
Proof.
rewrite ivl_full !inE; apply/subsetP => i; rewrite inE ffunE.
by case: (i \in T) => //; rewrite eqxx.
Qed.

Lemma prod_indicator T (x q : cell) :
  q \in idx n (ivl ((set0, T) : coding I)) ->
  \prod_(i in T) (x i == q i)%:R = (q == restrict T x)%:R :> F.
Proof.
rewrite ivl_full !inE => /subsetP qT.
rewrite prod_boolR; congr ((nat_of_bool _)%:R); apply/forallP/eqP => [H | -> i].
  apply/ffunP => i; rewrite ffunE; case: ifP => iT.
    by have := H i; rewrite iT /= => /eqP.
  by apply/eqP/negPn/negP => qi; have := qT i; rewrite inE qi iT => /(_ isT).
by apply/implyP => iT; rewrite ffunE iT.
Qed.

(* the span of the indicator coding of T = the functions of the T-coordinates = all T-cell means *)
Theorem cellmeansP T (h : fn) :
  reflect (forall x, h x = h (restrict T x)) (h \in cellmeans T).
Proof.
apply: (iffP idP) => [/span_elementary[a ha] x | hT].
  rewrite !ha; apply: eq_bigr => k _; congr (_ * _).
  have /block_colP[q _ ->] : (block C (set0, T))`_k \in block C (set0, T) by apply: mem_nth.
  rewrite !bcol_full; apply: eq_bigr => i iT.
  by rewrite restrict_in.
have -> : h = \sum_(q in idx n (ivl ((set0, T) : coding I))) h q *: bcol C (set0, T) q.
  apply/ffunP => x; rewrite sum_ffunE.
  rewrite (bigD1 (restrict T x)) ?restrict_idx //= big1 ?addr0 => [|q /andP[qT qx]].
    by rewrite scale_fnE bcol_full prod_indicator ?restrict_idx // eqxx mulr1 -hT.
  by rewrite scale_fnE bcol_full prod_indicator // (negbTE qx) mulr0.
apply: memv_suml => q qT; apply: memvZ; apply: memv_span; apply: map_f.
by rewrite mem_enum.
Qed.

(* every table of means indexed by the T-coordinates is in the space *)
Corollary cellmeans_table T (mu : cell -> F) :
  [ffun x : cell => mu (restrict T x)] \in cellmeans T.
Proof.
apply/cellmeansP => x; rewrite !ffunE; congr mu.
by apply/ffunP => i; rewrite !ffunE; case: ifP => // ->.
Qed.

Lemma dim_cellmeans T : \dim (cellmeans T) = (\prod_(i in T) (n i).+1)%N.
Proof.
by rewrite /cellmeans block_span ?wf_full // dim_W // card_idx_interval ?wf_full //= big_set0 mul1n.
Qed.

(* ------------------------------------------------------------------------------------------- *)
(* 2. The codings of the group-specific terms sharing a grouping factor                          *)
(* ------------------------------------------------------------------------------------------- *)
Variables (G : {set I}) (f : I).
Hypothesis fG : f \notin G.

Definition c_int : coding I := (set0, G).
Definition c_red : coding I := ([set f], G).
Definition c_full : coding I := (set0, f |: G).

Lemma wf_int : wf_coding c_int. Proof. exact: wf_full. Qed.
Lemma wf_fullc : wf_coding c_full. Proof. exact: wf_full. Qed.
Lemma wf_red : wf_coding c_red. Proof. by rewrite /wf_coding /= disjoints1. Qed.

Lemma part_int : partitions [:: c_int] (powerset G).
Proof. by move=> S; rewrite /= inE /= sub0set set0U powersetE addn0. Qed.

Lemma part_full : partitions [:: c_full] (powerset (f |: G)).
Proof. by move=> S; rewrite /= inE /= sub0set set0U powersetE addn0. Qed.

Lemma part_int_red : partitions [:: c_int; c_red] (powerset (f |: G)).
Proof.
move=> S; rewrite /= !inE /= sub0set set0U sub1set addn0.
case fS: (f \in S) => /=.
  have -> : (S \subset G) = false.
    by apply/negP => /subsetP/(_ f fS); rewrite (negbTE fG).
  by rewrite add0n.
rewrite addn0; congr (nat_of_bool _); apply/idP/idP => [SG | /subsetP H].
  exact: subset_trans SG (subsetU1 _ _).
apply/subsetP => i iS; have /setU1P[E | //] := H i iS.
by rewrite E fS in iS.
Qed.

(* the columns, readably: group indicator; contrast column of f times group indicator;
   level indicator of f times group indicator *)
Lemma bcol_group_int (q x : cell) : bcol C c_int q x = \prod_(i in G) (x i == q i)%:R.
Proof. exact: bcol_full. Qed.

Lemma bcol_group_red (q x : cell) :
  bcol C c_red q x = cbasis C f (x f) (q f) * \prod_(i in G) (x i == q i)%:R.
Proof. by rewrite ffunE /= big_set1. Qed.

Lemma bcol_group_full (q x : cell) :
  bcol C c_full q x = (x f == q f)%:R * \prod_(i in G) (x i == q i)%:R.
Proof. by rewrite bcol_full big_setU1. Qed.

(* a column of the reduced block: a genuine contrast column k of f, within one group q *)
Lemma group_red_colP (h : fn) :
  h \in block C c_red ->
  exists (k : 'I_(n f)) (q : cell),
    forall x, h x = C f (x f) k * \prod_(i in G) (x i == q i)%:R.
Proof.
case/block_colP => q qc ->.
have [k _ Hk] := @col_contrast F I n C c_red q f qc (set11 f).
by exists k, q => x; rewrite bcol_group_red Hk.
Qed.

Lemma size_block_int : size (block C c_int) = (\prod_(i in G) (n i).+1)%N.
Proof. by rewrite size_block_prod ?wf_int //= big_set0 mul1n. Qed.

Lemma size_block_red : size (block C c_red) = (n f * \prod_(i in G) (n i).+1)%N.
Proof. by rewrite size_block_prod ?wf_red //= big_set1. Qed.

Lemma size_block_full : size (block C c_full) = ((n f).+1 * \prod_(i in G) (n i).+1)%N.
Proof. by rewrite size_block_prod ?wf_fullc //= big_set0 mul1n big_setU1. Qed.

(* ------------------------------------------------------------------------------------------- *)
(* 3. Main theorems                                                                              *)
(* ------------------------------------------------------------------------------------------- *)

Lemma bridge_cellmeans (cs : seq (coding I)) (T : {set I}) :
  all (@wf_coding I) cs -> partitions cs (powerset T) ->
  [/\ free (design C cs), (<<design C cs>> = cellmeans T)%VS,
      size (design C cs) = (\prod_(i in T) (n i).+1)%N
    & \rank (design_mx C cs) = size (design C cs)].
Proof.
move=> wf part; have [fr sp] := tensor_bridge C_valid wf part.
split=> //; first by rewrite sp cellmeans_M.
  by move: fr; rewrite /free sp -cellmeans_M dim_cellmeans => /eqP.
exact: (design_mx_rank C_valid wf part).
Qed.

(* (1|g): independent columns, spanning all G-cell means; #G-cells columns *)
Theorem group_intercept_rank :
  [/\ free (design C [:: c_int]), (<<design C [:: c_int]>> = cellmeans G)%VS,
      size (design C [:: c_int]) = (\prod_(i in G) (n i).+1)%N
    & \rank (design_mx C [:: c_int]) = size (design C [:: c_int])].
Proof. by apply: bridge_cellmeans part_int; rewrite /= wf_int. Qed.

(* (0 + f|g): independent columns, spanning all (G, f)-cell means *)
Theorem group_full_effect_rank :
  [/\ free (design C [:: c_full]), (<<design C [:: c_full]>> = cellmeans (f |: G))%VS,
      size (design C [:: c_full]) = ((n f).+1 * \prod_(i in G) (n i).+1)%N
    & \rank (design_mx C [:: c_full]) = size (design C [:: c_full])].
Proof.
have [] := @bridge_cellmeans [:: c_full] (f |: G) _ part_full; first by rewrite /= wf_fullc.
by rewrite big_setU1.
Qed.

(* (f|g) = (1|g) + (f|g): the columns of the two terms together are independent and span all
   (G, f)-cell means *)
Theorem group_intercept_effect_rank :
  [/\ free (design C [:: c_int; c_red]),
      (<<design C [:: c_int; c_red]>> = cellmeans (f |: G))%VS,
      size (design C [:: c_int; c_red]) = ((n f).+1 * \prod_(i in G) (n i).+1)%N
    & \rank (design_mx C [:: c_int; c_red]) = size (design C [:: c_int; c_red])].
Proof.
have [] := @bridge_cellmeans [:: c_int; c_red] (f |: G) _ part_int_red.
  by rewrite /= wf_int wf_red.
by rewrite big_setU1.
Qed.

(* the two ways of coding the effects of one grouping factor give the same column space *)
Corollary group_codings_same_space :
  (<<design C [:: c_int; c_red]>> = <<design C [:: c_full]>>)%VS.
Proof.
by have [_ -> _ _] := group_intercept_effect_rank; have [_ -> _ _] := group_full_effect_rank.
Qed.

(* KF-C05-1 in this language: (0 + f + h|g) codes f and h both in full; the intervals of
   (0, f |: G) and (0, h |: G) both contain G, so the columns are dependent as soon as every
   component of the grouping factor has at least two levels *)
Theorem group_two_full_effects_dependent (h : I) :
  (forall i, i \in G -> (0 < n i)%N) ->
  ~~ free (design C [:: c_full; (set0, h |: G)]).
Proof.
move=> pos; apply: (@design_overlap_dependent F I n C C_valid _ G) => //.
  by rewrite /= wf_fullc wf_full.
by rewrite /= !inE /= !sub0set !set0U !subsetU1.
Qed.

(* replicated data: every cell observed at least once *)
Corollary group_columns_replicated (T : finType) (obs : T -> cell) (cs : seq (coding I)) (U : {set I}) :
  (forall x, exists t, obs t = x) ->
  all (@wf_coding I) cs -> partitions cs (powerset U) ->
  free [seq pullback obs h | h <- design C cs] /\
  forall h : fn, (pullback obs h \in <<[seq pullback obs k | k <- design C cs]>>%VS)
                 = (h \in cellmeans U).
Proof.
move=> surj wf part; have [fr sp _ _] := bridge_cellmeans wf part.
by split=> [|h]; rewrite ?replicate_free ?replicate_span ?sp.
Qed.

End GroupRank.

(* ------------------------------------------------------------------------------------------- *)
(* 4. One categorical grouping factor g, one categorical effect f                                *)
(* ------------------------------------------------------------------------------------------- *)
Section OneFactor.
Variables (F : fieldType) (I : finType) (n : I -> nat).
Variable C : forall f : I, 'M[F]_((n f).+1, n f).
Hypothesis C_valid : valid_contrasts C.
Variables g f : I.
Hypothesis gf : f != g.

Let fG : f \notin [set g]. Proof. by rewrite inE. Qed.

(* (1|g): #g independent columns spanning the group means *)
Theorem C05_group_intercept :
  let cs := [:: c_int [set g]] in
  [/\ free (design C cs), (<<design C cs>> = cellmeans C [set g])%VS,
      size (design C cs) = (n g).+1 & \rank (design_mx C cs) = (n g).+1].
Proof.
have [fr sp sz rk] := group_intercept_rank C_valid [set g].
by rewrite big_set1 in sz; split=> //; rewrite rk.
Qed.

(* (0 + f|g): #g * #f independent columns spanning all g-by-f cell means *)
Theorem C05_group_full_effect :
  let cs := [:: c_full [set g] f] in
  [/\ free (design C cs), (<<design C cs>> = cellmeans C [set f; g])%VS,
      size (design C cs) = ((n f).+1 * (n g).+1)%N
    & \rank (design_mx C cs) = ((n f).+1 * (n g).+1)%N].
Proof.
have [fr sp sz rk] := group_full_effect_rank C_valid fG.
by rewrite big_set1 in sz; split=> //; rewrite rk.
Qed.

(* (f|g) = (1|g) + (f|g): #g + #g * (#f - 1) = #g * #f independent columns spanning all g-by-f
   cell means *)
Theorem C05_group_intercept_effect :
  let cs := [:: c_int [set g]; c_red [set g] f] in
  [/\ free (design C cs), (<<design C cs>> = cellmeans C [set f; g])%VS,
      size (design C cs) = ((n f).+1 * (n g).+1)%N,
      \rank (design_mx C cs) = ((n f).+1 * (n g).+1)%N
    & size (block C (c_int [set g])) = (n g).+1 /\
      size (block C (c_red [set g] f)) = (n f * (n g).+1)%N].
Proof.
have [fr sp sz rk] := group_intercept_effect_rank C_valid fG.
rewrite big_set1 in sz; split=> //; first by rewrite rk.
by rewrite size_block_int size_block_red // !big_set1.
Qed.

End OneFactor.

(* ------------------------------------------------------------------------------------------- *)
(* 5. Example: the 2 x 3 crossing, g with 2 levels, f with 3 levels, Treatment coding            *)
(* ------------------------------------------------------------------------------------------- *)
Section Example.
Let Q := [fieldType of rat].
Let g := false.
Let f := true.
Let nlev (i : bool) : nat := (if i then 2 else 1)%N.
Let Ct : forall i : bool, 'M[Q]_((nlev i).+1, nlev i) := fun i => treat Q ord0.
Let Ct_valid : valid_contrasts Ct := @treat_valid Q _ nlev (fun=> ord0).

Lemma gf_all : [set f; g] = setT :> {set bool}.
Proof. by apply/setP => [[]]; rewrite !inE. Qed.

Lemma cellmeans_all : cellmeans Ct [set f; g] = fullv.
Proof.
rewrite cellmeans_M // gf_all.
have -> : powerset (setT : {set bool}) = setT by apply/setP => S; rewrite powersetE subsetT inE.
exact: M_setT.
Qed.

(* y ~ (f|g): the two columns of 1|g and the four columns of f|g are independent and span all
   functions on the six cells *)
Example ex_group_intercept_effect :
  let cs := [:: c_int [set g]; c_red [set g] f] in
  [/\ free (design Ct cs), (<<design Ct cs>> = fullv)%VS, size (design Ct cs) = 6%N,
      \rank (design_mx Ct cs) = 6%N
    & size (block Ct (c_int [set g])) = 2%N /\ size (block Ct (c_red [set g] f)) = 4%N].
Proof.
have [] // := @C05_group_intercept_effect Q _ nlev Ct Ct_valid g f.
by move=> fr sp sz rk [s1 s2]; split=> //; rewrite sp cellmeans_all.
Qed.

(* y ~ (0 + f|g): six independent columns spanning everything *)
Example ex_group_full_effect :
  let cs := [:: c_full [set g] f] in
  [/\ free (design Ct cs), (<<design Ct cs>> = fullv)%VS, size (design Ct cs) = 6%N
    & \rank (design_mx Ct cs) = 6%N].
Proof.
have [] // := @C05_group_full_effect Q _ nlev Ct Ct_valid g f.
by move=> fr sp sz rk; split=> //; rewrite sp cellmeans_all.
Qed.

(* y ~ (1|g): two independent columns *)
Example ex_group_intercept :
  let cs := [:: c_int [set g]] in
  [/\ free (design Ct cs), size (design Ct cs) = 2%N & \rank (design_mx Ct cs) = 2%N].
Proof. by have [] := @C05_group_intercept Q _ nlev Ct Ct_valid g. Qed.

End Example.

Print Assumptions cellmeansP.
Print Assumptions dim_cellmeans.
Print Assumptions part_int_red.
Print Assumptions group_intercept_rank.
Print Assumptions group_full_effect_rank.
Print Assumptions group_intercept_effect_rank.
Print Assumptions group_codings_same_space.
Print Assumptions group_two_full_effects_dependent.
Print Assumptions group_columns_replicated.
Print Assumptions C05_group_intercept.
Print Assumptions C05_group_full_effect.
Print Assumptions C05_group_intercept_effect.
Print Assumptions ex_group_intercept_effect.
Print Assumptions ex_group_full_effect.
