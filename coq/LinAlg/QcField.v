(* The cells of the model are stdlib canonical rationals, [Qcanon.Qc].  This file makes Qc a
   MathComp fieldType (eqType, choiceType, zmodType, ringType, comRingType, unitRingType,
   idomainType, fieldType) ON ITS OWN OPERATIONS:

       0 = Qcanon 0,  1 = Qcanon 1,  + = Qcplus,  - = Qcopp,  * = Qcmult,  ^-1 = Qcinv

   (all the ring laws are the stdlib theorems of Qcanon.v), so that a matrix of cell values is a
   MathComp matrix over the very numbers the model computes with: no value map, no morphism.
   [qcE] displays the operations.

   The stdlib part comes first; mathcomp is loaded after it. *)
From Coq Require Import ZArith QArith Qcanon Lia.

Module QcCode.
Local Open Scope Z_scope.

(* a rational as three naturals: positive part and negative part of the numerator, denominator *)
Definition enc (q : Qc) : nat * nat * nat :=
  (Z.to_nat (Qnum q), Z.to_nat (- Qnum q), Pos.to_nat (Qden q)).
Definition dec (t : nat * nat * nat) : Qc :=
  Q2Qc (Qmake (Z.of_nat (fst (fst t)) - Z.of_nat (snd (fst t))) (Pos.of_nat (snd t))).

Lemma encK q : dec (enc q) = q.
Proof.
  unfold dec, enc. cbn [fst snd]. rewrite Pos2Nat.id.
  replace (Z.of_nat (Z.to_nat (Qnum q)) - Z.of_nat (Z.to_nat (- Qnum q))) with (Qnum q) by lia.
  apply Qc_is_canon. destruct q as [[a b] H]. unfold Q2Qc. cbn [this Qnum Qden]. apply Qred_correct.
Qed.

Lemma addNq (q : Qc) : (- q + q = 0)%Qc.
Proof. rewrite Qcplus_comm. apply Qcplus_opp_r. Qed.

Lemma inv0 : (/ 0 = 0)%Qc.
Proof. apply Qc_is_canon. reflexivity. Qed.

End QcCode.

From mathcomp Require Import all_ssreflect all_algebra.

Set Implicit Arguments.
Unset Strict Implicit.
Unset Printing Implicit Defensive.

Import GRing.Theory.

Lemma Qc_encK : cancel QcCode.enc QcCode.dec.
Proof. exact: QcCode.encK. Qed.

Definition Qc_eqMixin := CanEqMixin Qc_encK.
Canonical Qc_eqType := EqType Qc Qc_eqMixin.
Definition Qc_choiceMixin := CanChoiceMixin Qc_encK.
Canonical Qc_choiceType := ChoiceType Qc Qc_choiceMixin.
Definition Qc_countMixin := CanCountMixin Qc_encK.
Canonical Qc_countType := CountType Qc Qc_countMixin.

Definition Qc_ZmodMixin := ZmodMixin Qcplus_assoc Qcplus_comm Qcplus_0_l QcCode.addNq.
Canonical Qc_ZmodType := ZmodType Qc Qc_ZmodMixin.

Fact Qc_nonzero1 : Q2Qc 1 != Q2Qc 0 :> Qc.
Proof. by apply/eqP; exact: Q_apart_0_1. Qed.

Definition Qc_comRingMixin :=
  ComRingMixin Qcmult_assoc Qcmult_comm Qcmult_1_l Qcmult_plus_distr_l Qc_nonzero1.
Canonical Qc_Ring := Eval hnf in RingType Qc Qc_comRingMixin.
Canonical Qc_comRing := Eval hnf in ComRingType Qc Qcmult_comm.

Fact Qc_mulVq (x : Qc) : x != 0%R -> Qcmult (Qcinv x) x = 1%R.
Proof. by move/eqP => nz; exact: Qcmult_inv_l. Qed.

Fact Qc_inv0 : Qcinv 0%R = 0%R.
Proof. exact: QcCode.inv0. Qed.

Definition Qc_FieldUnitMixin := FieldUnitMixin Qc_mulVq Qc_inv0.
Canonical Qc_unitRing := Eval hnf in UnitRingType Qc Qc_FieldUnitMixin.
Canonical Qc_comUnitRing := Eval hnf in [comUnitRingType of Qc].

Fact Qc_field_axiom : GRing.Field.mixin_of Qc_unitRing. Proof. exact. Qed.

Canonical Qc_idomainType := Eval hnf in IdomainType Qc (FieldIdomainMixin Qc_field_axiom).
Canonical Qc_fieldType := FieldType Qc Qc_field_axiom.

(* the MathComp operations on Qc ARE the stdlib operations *)
Lemma qcE :
  [/\ (0%R : Qc) = Q2Qc 0 /\ (1%R : Qc) = Q2Qc 1,
      forall x y : Qc, (x + y)%R = Qcplus x y,
      forall x : Qc, (- x)%R = Qcopp x,
      forall x y : Qc, (x * y)%R = Qcmult x y
    & forall x : Qc, (x^-1)%R = Qcinv x].
Proof. by split. Qed.

(* decidable equality is Leibniz equality of canonical rationals *)
Lemma Qc_eqP (x y : Qc) : reflect (x = y) (x == y).
Proof. exact: eqP. Qed.

Print Assumptions Qc_fieldType.
Print Assumptions qcE.
