#!/bin/sh
# Build the whole framework from files on disk (offline): translator -> Coq (full .vo) -> extraction -> driver.
set -e
cd "$(dirname "$0")"
/venv/bin/python harness/translate.py /repo coq/Generated/Generated.v
cd coq
coq_makefile -f _CoqProject -o Makefile
timeout 3000 make -j16
cd ..
if grep -rnE 'Admitted|admit\.|^\s*Axiom|^\s*Parameter|^\s*Conjecture|Unset Guard|bypass_check|Admit Obligations' --include=*.v coq; then
  echo "forbidden vernacular found"; exit 1
fi
sh ocaml/build.sh
cat $(ls coq/Model/*.v coq/Extract/Extract.v ocaml/main.ml | sort) > /dev/null
/venv/bin/python - <<'PY'
import sys
sys.path.insert(0, "harness")
import core, os
with open(os.path.join(core.COQ, "_CoqProject")) as fh:
    vfiles = [l.strip() for l in fh if l.strip().endswith(".v")]
srcs = [os.path.join(core.COQ, f) for f in vfiles if f.startswith("Model/")]
srcs += [os.path.join(core.COQ, "Extract", "Extract.v"), os.path.join(core.VERIF, "ocaml", "main.ml")]
open(os.path.join(core.VERIF, "ocaml", ".stamp"), "w").write(core._hash_files(srcs))
PY
echo "setup: ok"
