#!/bin/sh
# tools/try_harmless.sh [n...]: applies each recorded behaviour-preserving refactoring (harmless/refactor<n>.diff)
# to a scratch worktree of /repo HEAD and runs all quick checks against it in a throw-away copy of /verif.
# Every line must say exit=0: a harmless rewrite must not raise an alarm.
cd "$(dirname "$0")/.."
for n in ${@:-1 2 3 4 5 6}; do
  WT=/tmp/harmlesswt_$n
  git -C /repo worktree remove --force $WT 2>/dev/null
  git -C /repo worktree add -f $WT HEAD -q
  git -C $WT apply $PWD/harmless/refactor$n.diff || echo "refactor$n does not apply"
  echo "=== refactor$n"
  tools/par_try.sh hl$n $WT
  git -C /repo worktree remove --force $WT
done
