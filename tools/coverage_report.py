#!/venv/bin/python
"""Generator-quality diagnostic (not a check): which lines and branches of /repo/formulae do the
correspondence inputs of each property execute?  Runs the quick-tier cases of every property through
impl_obs + oracle under coverage.py (16 parallel workers), combines the data and writes
coverage/summary.json + coverage/missing.txt.  Lines no property's inputs reach are generator blind
spots (all seeded changes that were missed at first lived in such places).

usage: tools/coverage_report.py [C01 C02 ...]   (default: all)"""
import json
import os
import random
import subprocess
import sys
import tempfile

VERIF = os.path.dirname(os.path.dirname(os.path.abspath(__file__)))
REPO = os.environ.get("VERIF_REPO", "/repo")
sys.path.insert(0, os.path.join(VERIF, "harness"))
PY = "/venv/bin/python"
WORKER = r'''
import importlib, json, sys, warnings, logging, signal
import coverage
cov = coverage.Coverage(data_file=sys.argv[3], branch=True, source=[sys.argv[4] + "/formulae"])
cov.start()
logging.disable(logging.CRITICAL)
mod = importlib.import_module("props." + sys.argv[1])
class T(BaseException): pass
def alarm(*a): raise T()
signal.signal(signal.SIGALRM, alarm)
real = sys.stdout
sys.stdout = sys.stderr
for line in open(sys.argv[2]):
    c = json.loads(line)
    try:
        signal.alarm(60)
        with warnings.catch_warnings():
            warnings.simplefilter("ignore")
            mod.impl_obs(c)
            if hasattr(mod, "oracle") and not c.get("fresh_process"):
                try:
                    mod.oracle(c)
                except Exception:
                    pass
        signal.alarm(0)
    except BaseException:
        signal.alarm(0)
sys.stdout = real
cov.stop(); cov.save()
'''


def main():
    import importlib
    props = sys.argv[1:] or [f"C{i:02d}" for i in range(1, 18)]
    out = os.path.join(VERIF, "coverage")
    os.makedirs(out, exist_ok=True)
    tmp = tempfile.mkdtemp(prefix="verifcov_")
    wfile = os.path.join(tmp, "worker.py")
    open(wfile, "w").write(WORKER)
    env = dict(os.environ, PYTHONPATH=REPO + os.pathsep + os.path.join(VERIF, "harness"), PYTHONHASHSEED="0",
               OMP_NUM_THREADS="1", OPENBLAS_NUM_THREADS="1")
    datafiles = []
    per_prop = {}
    for p in props:
        mod = importlib.import_module("props." + p)
        rng = random.Random(0)
        cases = mod.gen(rng, "quick")
        if hasattr(mod, "prepare"):
            cases = [mod.prepare(c) for c in cases]
        if len(cases) > 3000:
            cases = random.Random(1).sample(cases, 3000)
        shards = [cases[i::16] for i in range(16)]
        procs = []
        mine = []
        for i, sh in enumerate(shards):
            if not sh:
                continue
            cf = os.path.join(tmp, f"{p}_{i}.jsonl")
            with open(cf, "w") as fh:
                for c in sh:
                    fh.write(json.dumps(c) + "\n")
            df = os.path.join(tmp, f".coverage.{p}.{i}")
            mine.append(df)
            procs.append(subprocess.Popen([PY, wfile, p, cf, df, REPO], env=env, stdout=subprocess.DEVNULL,
                                          stderr=subprocess.DEVNULL))
        for pr in procs:
            pr.wait()
        datafiles += [d for d in mine if os.path.exists(d)]
        per_prop[p] = len(cases)
        print(p, len(cases), "cases", flush=True)
    import coverage
    cov = coverage.Coverage(data_file=os.path.join(tmp, ".coverage.all"), branch=True, source=[REPO + "/formulae"])
    cov.combine(datafiles, keep=True)
    cov.save()
    summary = {}
    missing_txt = []
    for root, _, files in os.walk(REPO + "/formulae"):
        for f in sorted(files):
            if not f.endswith(".py"):
                continue
            path = os.path.join(root, f)
            try:
                _, stmts, _, miss, _ = cov.analysis2(path)
            except Exception:
                continue
            rel = os.path.relpath(path, REPO)
            an = cov._analyze(path)
            mb = sorted(an.missing_branch_arcs().items()) if hasattr(an, "missing_branch_arcs") else []
            summary[rel] = {"statements": len(stmts), "missing": len(miss),
                            "missing_lines": miss, "partial_branches": [[k, v] for k, v in mb]}
            if miss or mb:
                src = open(path).read().split("\n")
                missing_txt.append(f"== {rel}: {len(miss)} of {len(stmts)} statements never executed")
                for ln in miss:
                    missing_txt.append(f"   {ln:5d}: {src[ln - 1].rstrip()}")
                for k, v in mb:
                    missing_txt.append(f"   branch {k} never goes to {v}: {src[k - 1].strip()}")
    tot = sum(v["statements"] for v in summary.values())
    mis = sum(v["missing"] for v in summary.values())
    json.dump({"cases_per_property": per_prop, "statements": tot, "missing": mis, "files": summary},
              open(os.path.join(out, "summary.json"), "w"), indent=1)
    open(os.path.join(out, "missing.txt"), "w").write("\n".join(missing_txt) + "\n")
    print(f"statements {tot}, never executed {mis} ({100.0 * (tot - mis) / tot:.1f}% covered)")
    subprocess.run(["rm", "-rf", tmp])


if __name__ == "__main__":
    main()
