#!/bin/sh
# Runs every property's check (tier $1, default quick) and prints one summary line each.
cd "$(dirname "$0")/.."
TIER=${1:-quick}
rc=0
for p in C01 C02 C03 C04 C05 C06 C07 C08 C09 C10 C11 C12 C13 C14 C15 C16 C17; do
  out=$(./check $p --tier $TIER 2>&1); code=$?
  echo "$out" | grep -E "^(VIOLATION|$p )" | cut -c1-220
  [ $code -ne 0 ] && rc=1
done
exit $rc
