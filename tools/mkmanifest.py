#!/usr/bin/env python3
"""Regenerates MANIFEST.json from the table below (one entry per claimed property)."""
import json
import os

HERE = os.path.dirname(os.path.dirname(os.path.abspath(__file__)))
props = [json.loads(l) for l in open(os.path.join(HERE, "properties.jsonl"))]

NOTE = ("Trusted base: Coq 8.16.1 kernel (no native_compute; vm_compute only in Examples / refuted witnesses); "
        "harness/translate.py for the tables tied in coq/Generated/Tie.v; extraction with ExtrOcamlBasic + "
        "ExtrOcamlString only (no Extract Constant) and ocaml/main.ml; the correspondence harness; CPython, pandas, "
        "numpy, scipy are modelled, not verified. No axioms declared; Print Assumptions output is in the evidence.")

CLAIMED = {
    "C01": dict(
        text=("Theorems (Coq, unbounded): the parser model accepts exactly the sentences of a stratified precedence "
              "grammar and returns the tree the grammar dictates (sound + complete, hence unambiguous; fuel never "
              "exhausted); parentheses are transparent to the resolver. The model is tied to /repo by regenerated "
              "tables (Tie.v) and by a correspondence on exhaustive short token strings, grammar-generated sentences "
              "with random whitespace and random ASCII; a direct oracle (token accounting, level discipline, "
              "whitespace variants, fully parenthesised form) searches a failing input when anything breaks."),
        design_ref="DESIGN.md section 5, C01",
        technique="Coq proof (parser sound/complete w.r.t. grammar) + translator tie + differential correspondence"),
}

WIP = "model/theorems/correspondence under construction (see DESIGN.md section 8); not claimed yet"


def main():
    checks = []
    for pid, meta in CLAIMED.items():
        checks.append({
            "property_id": pid,
            "quick_cmd": f"./check {pid} --tier quick",
            "thorough_cmd": f"./check {pid} --tier thorough",
            "evidence_file": f"evidence/{pid}.json",
            "replay_cmd_template": "./check --replay {path}",
            "engine": "coq-proof+correspondence",
            "level_claimed": {"category": "proof", "text": meta["text"], "design_ref": meta["design_ref"]},
            "level_note": NOTE,
            "technique": meta["technique"],
        })
    m = {
        "version": 1,
        "setup_cmd": "./setup.sh",
        "hooks": {
            "guard": "FORMULAE_VERIF",
            "enable": "no source hooks: the checks import /repo's working tree (PYTHONPATH=/repo) with FORMULAE_VERIF=1 set; nothing in formulae reads it",
            "baseline_off_cmd": "cd /repo && /venv/bin/python -m pytest -ra -q -p no:cacheprovider --timeout=900 --continue-on-collection-errors",
            "source_commits": [],
            "add_only": True,
        },
        "engines": [{"name": "coq-proof+correspondence", "path": "check",
                     "serves_properties": sorted(CLAIMED),
                     "kind_free_text": "Coq 8.16.1 development (coq/), model extracted to OCaml (ocaml/), Python harness (harness/)"}],
        "checks": checks,
        "not_applicable": [{"property_id": p["id"], "reason": WIP} for p in props if p["id"] not in CLAIMED],
        "notes": "Machine-checked proof in Coq + checked tie (translator + correspondence). Fixes to /repo are 'fix:' commits listed in KNOWN_FINDINGS.json.",
    }
    with open(os.path.join(HERE, "MANIFEST.json"), "w") as fh:
        json.dump(m, fh, indent=1)


if __name__ == "__main__":
    main()
