#!/usr/bin/env python3
"""Regenerates MANIFEST.json from the table below (one entry per claimed property)."""
import json
import os

HERE = os.path.dirname(os.path.dirname(os.path.abspath(__file__)))
props = [json.loads(l) for l in open(os.path.join(HERE, "properties.jsonl"))]

NOTE = ("Trusted base: Coq 8.16.1 kernel (no native_compute; vm_compute only in Examples / refuted witnesses); "
        "harness/translate.py for the tables tied in coq/Generated/Tie.v; extraction with the standard files "
        "ExtrOcamlBasic + ExtrOcamlString (+ ExtrOcamlChar) only -- no Extract directive of our own; their "
        "directives are listed in DESIGN.md 10.8 and in every evidence file -- and ocaml/main.ml; the "
        "correspondence harness; CPython, pandas, "
        "numpy, scipy are modelled, not verified. No axioms declared; Print Assumptions output is in the evidence.")

COMMON = (" Tie: the model is hand-written Gallina mirroring the Python branch by branch; its tables are regenerated "
          "from /repo by harness/translate.py and equated in coq/Generated/Tie.v, its procedures are run (extracted "
          "to OCaml) against the implementation on the same generated inputs; a direct oracle evaluates the "
          "property's own statement on the implementation and supplies the failing input when a proof, the tie or "
          "the correspondence breaks.")

CLAIMED = {
    "C01": dict(
        text=("Theorems (Coq, unbounded): the parser model accepts exactly the sentences of a stratified precedence "
              "grammar and returns the tree the grammar dictates (C01_parse_sound, C01_parse_iff: sound + complete), "
              "the grammar is unambiguous, the fuel is never exhausted, parentheses are transparent to the resolver. "
              "Scanner (C01_scanner.v): the token loop accepts exactly the separated renderings of well-formed "
              "lexemes, whitespace between tokens never matters, intercept insertion, rejection of empty text / two "
              "tildes / unterminated strings and names / characters outside the alphabet, fuel never exhausted. "
              "Composition on formula TEXTS (C01_text.v): scan-then-parse accepts a string iff it is a separated "
              "rendering of a well-formed lexeme list with at most one tilde whose tokens (intercept inserted as the "
              "scanner does) the grammar derives, and returns THE tree of the grammar; every other string is refused "
              "with a scan or a parse error (exact conditions and error codes, trichotomy); 22 precedence / "
              "associativity laws for all identifier operands; the COMPLETE operator table (C01_pairs.v): every ordered "
              "pair of the thirteen binary operators, all identifier operands, any spacing, parsed to the tree a "
              "parser-independent precedence table with left associativity prescribes; to the right of the tilde the "
              "pair is accepted iff neither operator binds looser than plus, refused with a parse error otherwise." + COMMON),
        design_ref="DESIGN.md section 5 C01, section 10",
        technique="Coq proof: scanner characterised by renderings, parser sound+complete w.r.t. precedence grammar; translator tie; differential correspondence"),
    "C02": dict(
        text=("Theorem (Coq): on the documented fragment the term-algebra model (every operator overload of terms.py) "
              "accepts the formula and its result equals the Wilkinson set semantics (Spec/Wilkinson.v); refuted "
              "witnesses for the three listed findings. See the property file for the exact fragment. Identity of call "
              "atoms (C02_keywords.v): equality of calls is an equivalence on calls with distinct keyword names (which "
              "every resolved call has), insensitive to the ORDER of the keyword arguments at any depth and sensitive "
              "to callee, positional order, keyword names and values; lifted to terms and to the operand relation of "
              "the operator laws, so f(x, a=1, b=2) + f(x, b=2, a=1) is one term (the first spelling written), "
              "'-' removes it whichever spelling is subtracted, ':' collapses it -- for every callee, argument list "
              "and permutation at tree level, and for ALL identifier strings through the real scanner and parser "
              "for the two-keyword shape (KF-C02-11, repaired in /repo). Operand order (C02_operands.v): equality of "
              "operator nodes inside call arguments is symbol + operands in order (no commutativity, not even for "
              "+ and *), so I(x - z) and I(z - x) are different terms: '+' keeps both, '-' of one leaves the other, "
              "':' keeps two factors." + COMMON),
        design_ref="DESIGN.md section 5 C02, section 10",
        technique="Coq proof: refinement of set semantics by the operator model; differential correspondence on exhaustive operator trees"),
    "C03": dict(
        text=("Theorems (Coq, unbounded): the redundancy analysis returns codings whose subset-lattice intervals "
              "partition the union of the down-closures of the terms, for every group of terms in every order; the "
              "Python assertions cannot fail; fuel suffices. Tensor bridge (C03_rank.v, MathComp, any field, any number "
              "of factors and levels): when the codings' intervals partition a down-closed family of factor subsets, "
              "the coded matrix on complete-factorial cells has independent columns and exactly the column space of "
              "the complete-indicator coding (C03_tensor_bridge, C03_pick_contrasts_full_rank), and overlapping "
              "intervals are rank deficient. Numeric covariates in general position are not inside the theorem (the "
              "exact-rank oracle decides them); the caller's one-coding-per-term restriction is the listed finding "
              "KF-C03-2/3, its class decided by the extracted model. Numeric-categorical interactions "
              "(C03_numeric_part.v): the factor of a:N is coded in full iff the numeric part N -- the product term "
              "itself -- is not a term of the model, for any surrounding terms other than numeric-categorical "
              "interactions and any position; main effects of the numerics do not count; each row of a full block sums "
              "to the numeric product; the widened rule (main effects count) is shown to differ and to lose x*z on a "
              "computed design." + COMMON),
        design_ref="DESIGN.md section 5 C03, section 10",
        technique="Coq proof: interval-partition theorem for the contrast analysis + MathComp tensor bridge to rank/span; rank oracle; correspondence"),
    "C04": dict(
        text=("Theorems (Coq, unbounded arity / level counts / rows): labelled-product theorem (labels and entries of an "
              "interaction stay aligned, left factor slowest, counts equal), treatment-coded component = indicator "
              "columns with the reference row zero, Sum-coded component = contrast columns (1 own level, -1 omitted "
              "level, optional [mean] column), whole-term statement and closed form for terms of numeric, Treatment- "
              "and Sum-coded components: column j holds the product of what the pieces of its label denote "
              "(C04_every_column_holds_what_its_label_says); the same for matrix-valued numeric components (bs, poly: "
              "labels name[i], entries of the basis matrix) and offsets (C04_matrix.v); levels sorted and "
              "duplicate-free. Whole designs (C04_whole.v): for every accepted design of supported components the "
              "flattened label list is the printed list of structured labels, has as many entries as the matrix has "
              "columns, and column j is the denotation of label j (also stated against the retained rows of the "
              "frame); the response column(s) are the denotation of the response's labels (numeric, y[level], full "
              "indicators, prop = successes and trials); level order: strictly sorted by the model's string order (a "
              "proved strict total order) for str data, as declared for ordered data / levels=, numerically for integer "
              "codes; labels are pairwise distinct under three explicit conditions, each shown necessary by a "
              "refuted witness (a back-quoted name `f[a]`, a level containing ']:g[', a level named mean). The whole "
              "GROUP-specific matrix (C04_group_whole.v): labels = printed (effect, group cell) pairs, as many as columns, "
              "entry (i, j) = the effect's value if observation i is in the cell and 0 * that value otherwise (0, or NaN "
              "under pass: refuted 'always 0 elsewhere'), group cell slowest and effect fastest, terms in order; response, "
              "common and group matrices are row-aligned for every accepted design and every na_action. "
              "Listed finding KF-C04-2: a spline basis without any column keeps one label." + COMMON),
        design_ref="DESIGN.md section 5 C04, section 10",
        technique="Coq proof: labelled Kronecker product / indicator coding; differential correspondence; label-denotation oracle"),
    "C05": dict(
        text=("Theorems (Coq, unbounded): a group-specific block is the row-wise Kronecker product of the one-hot group "
              "row with the effect row (zeros outside the own group, effect values inside), group slowest; labels "
              "aligned. Effect coding: every group-specific term is coded with one flag, reduced exactly when (1|same "
              "factor) is present (C05_effect_coding_rule); for the shapes (1|g), (x|g), (0 + f|g), (f|g) this is what "
              "the common-effects analysis prescribes (four agreement theorems); for several categorical effects "
              "under one factor it is not (C05_refuted_uniform_flag = listed finding KF-C05-1). Rank and span: a "
              "group-specific block is the common interaction term with the grouping factor first and in full coding "
              "(C05_group_block_is_common_interaction), and on complete-factorial cells the columns of (1|g), "
              "(0 + f|g) and (1|g) + (f|g) are linearly independent and span all g-by-f cell means (C05_rank.v, "
              "MathComp, through the C03 tensor bridge); two effects in full coding are dependent "
              "(C05_rank_refuted_two_full_effects). Numeric effects (C05_rank_num.v, any field): the rank of a group "
              "block is the sum over the groups of the rank of the effect matrix within the group; (x|g) has "
              "independent columns iff x is not constant within any group, (0 + x|g) iff x is non-zero somewhere in "
              "every group, p effect columns iff the within-group effect matrix has rank p in every group; the span "
              "is a separate regression within each group; a common intercept plus (1|g) is always rank deficient. "
              "Bridge (C05_bridge.v): Qc is made a MathComp field on its own operations, and the matrix of the rows the "
              "MODEL builds for a group term over one Treatment-coded factor IS that block (gterm_bridge), so the "
              "rank / span theorems are statements about the model's output: (1|g) + (x|g) has 2G independent columns "
              "iff x takes two values in every group, (0 + x|g) iff x is non-zero somewhere in every group; a computed "
              "6-row example goes from the formula text through design_matrices to rank 4. "
              "The rank oracle on crossed data decides every other input." + COMMON),
        design_ref="DESIGN.md section 5 C05, section 10",
        technique="Coq proof: one-hot Kronecker block structure; rank oracle on crossed designs; correspondence"),
    "C06": dict(
        text=("Theorems (Coq): evaluation of new data is row-wise with frozen levels, contrasts and recorded transform "
              "parameters, hence the new common matrix AND the new group-specific matrix on any list of training rows "
              "are those rows of the training matrices, in every unseen-level mode, including poly and bs (see "
              "property file for the covered call shapes); prediction records nothing; refuted witnesses for the two "
              "listed findings (level re-validation, stateless binary). Prediction never drops a row (C06_pass.v): for "
              "EVERY design, mode and well-formed frame the new common and group matrices have one row per row of the "
              "frame; designs built under na_action='pass' (a decidable class of formulas) return, for any row list "
              "incl. the incomplete rows, exactly those rows of the training matrices (NaN cells stay); designs built "
              "under 'drop' evaluated on original rows that were dropped return one row each, NaN exactly in the "
              "terms that read the missing variable." + COMMON),
        design_ref="DESIGN.md section 5 C06, section 10",
        technique="Coq proof: row-locality / frozen state of the prediction pass; correspondence on row multisets of the training frame"),
    "C07": dict(
        text=("Theorem (Coq, all histories): the concrete machine (designs + configuration) produces for every "
              "operation what a fresh state holding only the named design produces (C07_history_refines); designs "
              "are append-only; bad configuration values are refused. That the implementation is such a machine "
              "(no hidden mutable state, caller's DataFrame untouched) is established by the correspondence on "
              "operation histories, not by the theorem." + COMMON),
        design_ref="DESIGN.md section 5 C07, section 10",
        technique="Coq proof: refinement of an immutable-design specification over all operation histories; history correspondence"),
    "C08": dict(
        text=("Theorems (Coq): the design depends only on the columns the formula uses (column order, unused columns "
              "and the index are not inputs of the model) and a row permutation permutes the rows of the response, "
              "common and group-specific matrices and changes nothing else -- labels, levels, groups, fitted "
              "center/scale/bs/poly parameters (C08_perm_rows, C08_perm_rows_groups, C08_permuted_design_spec). The "
              "index and pandas-side structure "
              "are covered by the correspondence (the implementation is fed permuted / re-indexed / re-ordered frames)." + COMMON),
        design_ref="DESIGN.md section 5 C08, section 10",
        technique="Coq proof: frame-agreement and row-equivariance lemmas; differential correspondence under frame transformations"),
    "C09": dict(
        text=("Theorems (Coq): drop = run on the frame filtered by the incomplete-row mask over the USED columns; error "
              "iff such a row exists; pass keeps all rows; unused columns irrelevant (see property file). 'pass' "
              "(C09_pass_policy): for models of plain variables, arithmetic calls and C/T/S codings, on frames whose "
              "missing values sit in numeric columns and whose levels all occur on complete rows, the design under "
              "drop is the design under pass with the incomplete rows removed, and on every row a term is NaN in all "
              "its columns if a numeric variable it reads is missing there and in none otherwise (NaN * 0 = NaN); "
              "the level-coverage premise is shown necessary by a computed witness. Stateful transforms under pass "
              "(every row NaN) are tied by correspondence. Subtracted terms (C09_subtracted.v): y ~ r + t - t describes as "
              "y ~ r for every term (or model) t not already in r, hence the same used columns, incomplete mask and "
              "design for EVERY frame and policy -- the content of a column read only by t is irrelevant; x*z - z "
              "still uses z." + COMMON),
        design_ref="DESIGN.md section 5 C09, section 10",
        technique="Coq proof: missing-value policy as a row filter over used columns; correspondence over missingness patterns"),
    "C10": dict(
        text=("Theorems (Coq): error mode raises iff an unseen value occurs; otherwise unseen rows are zero rows of the "
              "component (hence of every interaction involving it), seen rows unchanged, warning iff mode = warning; "
              "new groups append exactly one trailing block; slices recomputed contiguously (C17); configuration "
              "accepts exactly its documented values." + COMMON),
        design_ref="DESIGN.md section 5 C10, section 10",
        technique="Coq proof: unseen-level / new-group case analysis of the prediction pass; correspondence over placements and modes"),
    "C11": dict(
        text=("Theorems (Coq, chains and stacks of any size): first match wins, undefined iff no scope defines the name, "
              "the argument chain is data, built-ins, locals, globals, extra; the callee chain is the same without "
              "data; env = k selects the k-th frame, too deep is an error. CPython frame objects are modelled as a "
              "stack of (locals, globals); exhaustive correspondence through real nested callers." + COMMON),
        design_ref="DESIGN.md section 5 C11, section 10",
        technique="Coq proof: first-match lookup over the documented chain; exhaustive correspondence (2^5 scope subsets x roles x depths)"),
    "C12": dict(
        text=("Theorems (Coq): hazard-free Python operator trees printed with minimal parentheses parse (parser "
              "completeness) to the same tree formulae evaluates; {e} is I(e); refuted witnesses for unary sign before "
              "**, ** associativity and parenthesis-dropping names (listed findings). Python's own parser/eval is the "
              "specification of Python (validated by ast.parse in the harness). Literals (C12_literals.v): an integer "
              "literal of ANY length scans to the NUMBER token holding exactly its decimal value (through the real "
              "scanner), its name is the canonical decimal, decimal round trips both ways, calls that differ in any "
              "digit of an integer argument are different terms with different names; decimal literals denote the "
              "exact rational ip + fp/10^len, '.5' accepted, '1.' rejected; no negative NUMBER token (unary minus); "
              "refuted: names do not keep the digits as typed ('1.50' prints 1.5)." + COMMON),
        design_ref="DESIGN.md section 5 C12, section 10",
        technique="Coq proof: Python-expression round trip through the formula grammar; correspondence against Python's eval"),
    "C13": dict(
        text=("Theorems (Coq/MathComp, every number of levels, every reference/omitted level, every field): treatment "
              "columns are level indicators with zero reference row; [1|treatment] has full rank (explicit inverse); "
              "sum columns add to zero with the omitted level -1; [1|sum] has full rank iff the number of levels is "
              "invertible; full codings span all indicators; all codings of one factor have the same column space; "
              "entry bridge to the executable model. Lifted to whole categorical designs by the tensor bridge: the "
              "column space of a coded design on complete-factorial cells does not depend on which valid coding each "
              "factor uses (C13_coding_never_changes_the_column_space; Treatment and Sum are valid codings). Options "
              "(C13_options.v): levels sorted or in the declared / levels= order, levels= accepted iff it has the "
              "values of the data as a set, a named reference / omitted level refused iff consulted and absent, "
              "labels = levels without the level left out, defaults = first / last level of the order in force, end "
              "to end through C / T / S calls. Re-boxing (C13_rebox.v): C() around an already coded factor keeps the inner "
              "contrast and, independently, the inner levels unless the outer call gives them anew (one law, four "
              "cases; any chain of re-boxings = one call with the last given option winning per option); nested and "
              "flat spellings give the same component up to its name, validation applies to the merged options; the "
              "'both absent' reading of the fall-back is refuted by a computed witness." + COMMON),
        design_ref="DESIGN.md section 5 C13, section 10",
        technique="Coq/MathComp proof: explicit inverses and column-space equalities of contrast matrices; exhaustive correspondence n = 1..12"),
    "C14": dict(
        text=("Theorems (Coq, exact rationals, sqrt as a function argument): center mean 0; scale mean 0 / variance 1; "
              "same affine map later; bs column count, non-negativity and partition of unity inside the boundary knots "
              "(de Boor-Cox recurrence, any degree, any sorted knots) and everywhere when inner knots are strictly "
              "inside; every invalid parameter combination refused; poly orthonormal and orthogonal to the constant "
              "given d+1 distinct abscissae; raw = powers. Floating point and scipy's splev are tied by tolerance "
              "correspondence; finding KF-C14-1 (inner knot on the boundary). Change of unit and origin (C14_affine.v): "
              "centring absorbs a shift and commutes with a rescaling; scale / standardize and the orthonormal "
              "polynomials of any degree are invariant under v -> c*v + a for c > 0 on training and on later data "
              "(column k changes sign by (-1)^k for c < 0; recurrence quantities: P_k scales by c^k, norms by c^2k, "
              "alpha by the map itself), from local root hypotheses on ksqrt only; bs is invariant when data, "
              "knots and bounds move together; raw polynomials are not (witness)." + COMMON),
        design_ref="DESIGN.md section 5 C14, section 10",
        technique="Coq proof over exact rationals of the transforms' contracts; tolerance correspondence against numpy/scipy"),
    "C15": dict(
        text=("Theorems (Coq): numeric response returned unchanged; categorical response = one indicator per level in "
              "sorted/declared order; y[level] = one 0/1 column; prop = successes/trials with validation; the response "
              "must be a single one-component term (see property file). Independence of the predictors from the "
              "response: two formulas that differ only left of the tilde give the same common and group terms "
              "(names, labels, rows, levels, memorised transform parameters) whenever each response is observed "
              "where the predictors are complete, under every na_action; a formula without response builds the same "
              "predictors (C15_predictors_independent_of_response, C15_without_response); the premise is shown "
              "necessary by a computed witness." + COMMON),
        design_ref="DESIGN.md section 5 C15, section 10",
        technique="Coq proof: response coding lemmas; correspondence over 23 response forms x right-hand sides"),
    "C16": dict(
        text=("Theorems (Coq): aliases are equal model functions and bind to the same objects in the regenerated "
              "TRANSFORMS registry (Tie.v); binary/offset/I specifications (see property file). Prediction time: "
              "offset(v) is recomputed from the new frame and a constant is broadcast to its rows, prop reports the "
              "trials of the new frame, binary applies its rule to the new frame, a proportion is never a predictor "
              "(C16_*_at_prediction, C16_prop_trials_of_new_frame). Whole designs (C16_design.v): "
              "y ~ rhs + offset(v) is the design of y ~ rhs plus one offset term holding v (a constant broadcast), "
              "recomputed from the new frame at prediction while the other terms do not move; prop / p / proportion "
              "accepted iff integer successes not exceeding integer trials (prop_ok_iff) and equal up to the "
              "response's name; binary / B designs with default and refusal; I(e) and {e} give equal designs for "
              "every expression; refuted clauses recorded (0 <= successes is not checked, binary(x) without a "
              "success value is not frozen: KF-C06-2)." + COMMON),
        design_ref="DESIGN.md section 5 C16, section 10",
        technique="Coq proof: alias equalities + registry tie; correspondence of helper calls at training and prediction time"),
    "C17": dict(
        text=("Theorems (Coq): slices computed from widths are contiguous from 0 in term order and cover the columns, "
              "also for the widened group matrix returned by evaluate_new_data; stacked width = sum of block widths. "
              "Functional part: every design built from a rectangular frame has one row per retained observation in "
              "response, common and group matrices, pairwise distinct term names, and indexing a matrix by a term "
              "name returns exactly that term's columns while any other name is refused -- also for the matrices "
              "returned for new data (C17_common_index, C17_group_index, C17_new_group_index, C17_new_common_index). "
              "Views (as_dataframe, __array__, unpacking, str/repr) are Python glue decided by the oracle." + COMMON),
        design_ref="DESIGN.md section 5 C17, section 10",
        technique="Coq proof: slice contiguity + index-by-name returns the term's block (training and new data); container-consistency oracle over derived objects"),
}

WIP = "model/theorems/correspondence under construction (see DESIGN.md section 8); not claimed yet"


def main():
    checks = []
    for pid, meta in CLAIMED.items():
        checks.append({
            "property_id": pid,
            "quick_cmd": f"./check {pid} --tier quick",
            "thorough_cmd": f"./check {pid} --tier thorough",
            "evidence_file": f"evidence/{pid}.json",
            "replay_cmd_template": "./check --replay {path}",
            "engine": "coq-proof+correspondence",
            "level_claimed": {"category": "proof", "text": meta["text"], "design_ref": meta["design_ref"]},
            "level_note": NOTE,
            "technique": meta["technique"],
        })
    m = {
        "version": 1,
        "setup_cmd": "./setup.sh",
        "hooks": {
            "guard": "FORMULAE_VERIF",
            "enable": "no source hooks: the checks import /repo's working tree (PYTHONPATH=/repo) with FORMULAE_VERIF=1 set; nothing in formulae reads it",
            "baseline_off_cmd": "cd /repo && /venv/bin/python -m pytest -ra -q -p no:cacheprovider --timeout=900 --continue-on-collection-errors",
            "source_commits": [],
            "add_only": True,
        },
        "engines": [{"name": "coq-proof+correspondence", "path": "check",
                     "serves_properties": sorted(CLAIMED),
                     "kind_free_text": "Coq 8.16.1 development (coq/), model extracted to OCaml (ocaml/), Python harness (harness/)"}],
        "checks": checks,
        "not_applicable": [{"property_id": p["id"], "reason": WIP} for p in props if p["id"] not in CLAIMED],
        "notes": "Machine-checked proof in Coq + checked tie (translator + correspondence). Fixes to /repo are 'fix:' commits listed in KNOWN_FINDINGS.json.",
    }
    with open(os.path.join(HERE, "MANIFEST.json"), "w") as fh:
        json.dump(m, fh, indent=1)


if __name__ == "__main__":
    main()
