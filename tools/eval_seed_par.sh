#!/bin/sh
# tools/eval_seed_par.sh <id> <seed-worktree> <property...>: like eval_seed.sh but everything runs in throw-away
# copies (several seeds can be evaluated at once).  The checks run twice: with the harness as committed (HEAD:
# "first run") and with the harness of the working tree ("now").
set -u
SRC="$(cd "$(dirname "$0")/.." && pwd)"
cd $SRC
ID=$1; SEED=$2; shift 2
mkdir -p seeded/$ID
git -C $SEED diff -- formulae > seeded/$ID/patch.diff
cp $SEED/seed_demo.py seeded/$ID/demo.py 2>/dev/null
cp $SEED/seed_notes.md seeded/$ID/notes.md 2>/dev/null
WT=/tmp/evalwt_$ID
git -C /repo worktree remove --force $WT 2>/dev/null
git -C /repo worktree add -f $WT HEAD -q
(cd $WT && PYTHONPATH=$WT /venv/bin/python $SRC/seeded/$ID/demo.py >/dev/null 2>&1); D0=$?
if ! git -C $WT apply $SRC/seeded/$ID/patch.diff; then echo "PATCH DOES NOT APPLY"; fi
(cd $WT && PYTHONPATH=$WT /venv/bin/python $SRC/seeded/$ID/demo.py >/dev/null 2>&1); D1=$?
SUITE=$(cd $WT && PYTHONPATH=$WT /venv/bin/python -m pytest -q -p no:cacheprovider tests 2>&1 | tail -1)
echo "demo without=$D0 with=$D1 suite: $SUITE"
run_copy() {  # $1 = label, $2 = head|now
  COPY=/tmp/vc_${ID}_$1
  rm -rf $COPY; mkdir -p $COPY
  (cd $SRC && tar cf - --exclude=.git --exclude=replays --exclude=replays_other --exclude=evidence_other_tree . ) | (cd $COPY && tar xf -)
  if [ "$2" = head ]; then rm -rf $COPY/harness; git -C $SRC archive HEAD harness | tar xf - -C $COPY; fi
  cd $COPY
  for p in $PROPS; do
    out=$(VERIF_REPO=$WT ./check $p --tier quick 2>&1); code=$?
    first=$(echo "$out" | grep -m1 "^VIOLATION")
    echo "[$1] $p exit=$code $(echo "$out" | grep "^$p " | cut -c1-120) $first"
    if [ $code -ne 0 ] && [ "$2" = now ]; then mkdir -p $SRC/replays_other/$ID; cp -r replays/$p $SRC/replays_other/$ID/ 2>/dev/null; fi
  done
  cd $SRC; rm -rf $COPY
}
PROPS="$@"
R1=$(run_copy first head)
echo "$R1"
R2=$(run_copy now now)
echo "$R2"
printf '%s\n' "demo_exit_without_patch=$D0" "demo_exit_with_patch=$D1" "suite=$SUITE" "$R1" "$R2" > seeded/$ID/run.txt
git -C /repo worktree remove --force $WT
