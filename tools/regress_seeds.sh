#!/bin/sh
# Re-runs every recorded seeded change against the property it breaks: each must raise an alarm.
cd "$(dirname "$0")/.."
WT=/tmp/regresswt
git -C /repo worktree remove --force $WT 2>/dev/null
git -C /repo worktree add -f $WT HEAD -q
for d in ${SEEDS:-seeded/*/}; do
  id=$(basename $d); prop=${id%%-*}
  git -C $WT checkout -q -- . ; git -C $WT clean -fdq
  if ! git -C $WT apply $PWD/$d/patch.diff 2>/dev/null; then echo "$id PATCH-DOES-NOT-APPLY"; continue; fi
  out=$(VERIF_NO_ESCALATE=${VERIF_NO_ESCALATE-1} VERIF_REPO=$WT ./check $prop --tier quick 2>&1); code=$?
  echo "$id exit=$code $(echo "$out" | grep "^$prop " | cut -c1-110) $(echo "$out" | grep -m1 '^VIOLATION' | cut -c1-90)"
done
git -C /repo worktree remove --force $WT
/venv/bin/python harness/translate.py /repo coq/Generated/Generated.v >/dev/null
(cd coq && make -j8 Generated/Tie.vo >/dev/null 2>&1)
rm -rf replays
