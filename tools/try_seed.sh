#!/bin/sh
# tools/try_seed.sh <tree> [props...]: runs the quick checks against another checkout of formulae
# (VERIF_REPO) and then restores the build products for /repo.  Prints per property: alarm or quiet.
cd "$(dirname "$0")/.."
TREE=$1; shift
PROPS=${@:-C01 C02 C03 C04 C05 C06 C07 C08 C09 C10 C11 C12 C13 C14 C15 C16 C17}
for p in $PROPS; do
  out=$(VERIF_REPO=$TREE ./check $p --tier quick 2>&1); code=$?
  first=$(echo "$out" | grep -m1 "^VIOLATION")
  echo "$p exit=$code $(echo "$out" | grep "^$p " | cut -c1-120) $first"
done
/venv/bin/python harness/translate.py /repo coq/Generated/Generated.v >/dev/null
(cd coq && make -j8 Generated/Tie.vo >/dev/null 2>&1)
