#!/bin/sh
# tools/par_try.sh <label> <tree> [props...]: like try_seed.sh, but inside a throw-away copy of /verif
# (so that several trees can be tried at the same time: each copy regenerates its own Generated.v).
# The copy lives under /tmp only for the duration of the run; nothing registered in MANIFEST.json uses it.
set -u
SRC="$(cd "$(dirname "$0")/.." && pwd)"
LABEL=$1; TREE=$2; shift 2
COPY=/tmp/vc_$LABEL
rm -rf $COPY
mkdir -p $COPY
(cd $SRC && tar cf - --exclude=.git --exclude=replays --exclude=evidence_other_tree . ) | (cd $COPY && tar xf -)
cd $COPY
PROPS=${@:-C01 C02 C03 C04 C05 C06 C07 C08 C09 C10 C11 C12 C13 C14 C15 C16 C17}
for p in $PROPS; do
  out=$(VERIF_REPO=$TREE ./check $p --tier quick 2>&1); code=$?
  first=$(echo "$out" | grep -m1 "^VIOLATION")
  echo "$p exit=$code $(echo "$out" | grep "^$p " | cut -c1-120) $first"
  if [ $code -ne 0 ]; then mkdir -p $SRC/replays_other/$LABEL; cp -r replays/$p $SRC/replays_other/$LABEL/ 2>/dev/null; fi
done
cd /; rm -rf $COPY
