#!/bin/sh
# tools/regress_seeds_par.sh [jobs]: tools/regress_one.sh for every recorded change (SEEDS=<prefix> to subset), jobs at
# a time (default 3).  A line "MISSED" is a recorded change its property's check no longer catches.
cd "$(dirname "$0")/.."
ls seeded | grep -E "^${SEEDS:-C}" | xargs -P ${1:-3} -I{} tools/regress_one.sh {}
