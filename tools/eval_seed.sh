#!/bin/sh
# tools/eval_seed.sh <id> <seed-worktree> <property...>: records the seed under seeded/<id>, verifies it on a
# fresh worktree of /repo HEAD (demo passes without, fails with, suite stays green), runs the given checks.
set -u
cd "$(dirname "$0")/.."
ID=$1; SRC=$2; shift 2
mkdir -p seeded/$ID
git -C $SRC diff -- formulae > seeded/$ID/patch.diff
cp $SRC/seed_demo.py seeded/$ID/demo.py 2>/dev/null
cp $SRC/seed_notes.md seeded/$ID/notes.md 2>/dev/null
WT=/tmp/evalwt_$ID
git -C /repo worktree remove --force $WT 2>/dev/null
git -C /repo worktree add -f $WT HEAD -q
(cd $WT && PYTHONPATH=$WT /venv/bin/python $OLDPWD/seeded/$ID/demo.py >/dev/null 2>&1); D0=$?
if ! git -C $WT apply $PWD/seeded/$ID/patch.diff; then echo "PATCH DOES NOT APPLY"; fi
(cd $WT && PYTHONPATH=$WT /venv/bin/python $OLDPWD/seeded/$ID/demo.py >/dev/null 2>&1); D1=$?
SUITE=$(cd $WT && PYTHONPATH=$WT /venv/bin/python -m pytest -q -p no:cacheprovider tests 2>&1 | tail -1)
echo "demo without=$D0 with=$D1 suite: $SUITE"
RES=$(tools/try_seed.sh $WT "$@")
echo "$RES"
printf '%s\n' "demo_exit_without_patch=$D0" "demo_exit_with_patch=$D1" "suite=$SUITE" "$RES" > seeded/$ID/run.txt
git -C /repo worktree remove --force $WT
rm -rf replays
