#!/bin/sh
# tools/regress_one.sh <id>: the recorded change seeded/<id>/patch.diff is applied to a scratch worktree of /repo HEAD
# and its own property's quick check runs against it in a throw-away copy of /verif.  Prints one line:
# "<id> caught ..." (exit=1 with a VIOLATION) or "<id> MISSED ...".
cd "$(dirname "$0")/.."
id=$1; prop=${id%-*}
WT=/tmp/regwt_$id
git -C /repo worktree remove --force $WT 2>/dev/null
git -C /repo worktree add -f $WT HEAD -q
if ! git -C $WT apply $PWD/seeded/$id/patch.diff 2>/dev/null; then
  echo "$id PATCH-DOES-NOT-APPLY"; git -C /repo worktree remove --force $WT; exit 0
fi
out=$(VERIF_NO_ESCALATE=${VERIF_NO_ESCALATE-1} tools/par_try.sh reg$id $WT $prop 2>&1 | tail -1)
case "$out" in *"exit=1"*VIOLATION*) tag=caught;; *) tag=MISSED;; esac
case "$out" in *no-failing-input-found*) tag="$tag(no-failing-input)";; esac
echo "$id $tag $(echo "$out" | cut -c1-150)"
git -C /repo worktree remove --force $WT
