#!/bin/sh
# tools/eval_seed_quick.sh <id> <seed-worktree> <property...>: records the seed under seeded/<id>, verifies demo and suite
# on a fresh worktree of /repo HEAD and runs the given checks ONCE (working-tree harness) in a throw-away copy.
set -u
SRC="$(cd "$(dirname "$0")/.." && pwd)"
cd $SRC
ID=$1; SEED=$2; shift 2
mkdir -p seeded/$ID
git -C $SEED diff -- formulae > seeded/$ID/patch.diff
cp $SEED/seed_demo.py seeded/$ID/demo.py 2>/dev/null
cp $SEED/seed_notes.md seeded/$ID/notes.md 2>/dev/null
WT=/tmp/evalwt_$ID
git -C /repo worktree remove --force $WT 2>/dev/null
git -C /repo worktree add -f $WT HEAD -q
(cd $WT && PYTHONPATH=$WT /venv/bin/python $SRC/seeded/$ID/demo.py >/dev/null 2>&1); D0=$?
git -C $WT apply $SRC/seeded/$ID/patch.diff || echo "PATCH DOES NOT APPLY"
(cd $WT && PYTHONPATH=$WT /venv/bin/python $SRC/seeded/$ID/demo.py >/dev/null 2>&1); D1=$?
SUITE=$(cd $WT && PYTHONPATH=$WT /venv/bin/python -m pytest -q -p no:cacheprovider tests 2>&1 | tail -1)
R=$(tools/par_try.sh q$ID $WT "$@" 2>&1 | sed "s/^/[${STAGE:-run}] /")
printf '%s\n' "demo_exit_without_patch=$D0" "demo_exit_with_patch=$D1" "suite=$SUITE" "$R" >> seeded/$ID/run.txt
echo "$ID demo $D0/$D1 suite: $SUITE"; echo "$R" | cut -c1-200
git -C /repo worktree remove --force $WT
