#!/venv/bin/python
"""Writes fingerprints.json: one hash per function / method of /repo/formulae (AST without docstrings), taken
at the commit the model was last reconciled with.  Not a proof obligation: when a function anchored by a
property differs from its fingerprint, the quick tier of that property explores several seeds' worth of
inputs instead of one (harness/core.py changed_functions, harness/runner.py)."""
import json
import os
import subprocess
import sys

sys.path.insert(0, os.path.join(os.path.dirname(os.path.dirname(os.path.abspath(__file__))), "harness"))
import core  # noqa: E402

fp = core.function_fingerprints(core.REPO)
head = subprocess.run(["git", "-C", core.REPO, "rev-parse", "HEAD"], stdout=subprocess.PIPE, text=True).stdout.strip()
json.dump({"repo_commit": head, "functions": fp}, open(os.path.join(core.VERIF, "fingerprints.json"), "w"), indent=1,
          sort_keys=True)
print(len(fp), "functions at", head[:10])
